//! Shared plumbing: deterministic providers, console capture, error classification,
//! observation tuple, and a generic "run a program under a host policy" driver.
#![allow(dead_code)]
use std::cell::RefCell;
use std::rc::Rc;
use tsrun::platform::{ConsoleLevel, ConsoleProvider, RandomProvider, TimeProvider};
use tsrun::{Interpreter, JsError, JsValue, ModulePath, OrderResponse, RuntimeValue, StepResult};

pub type Log = Rc<RefCell<Vec<String>>>;

pub struct Cap(pub Log);
impl ConsoleProvider for Cap {
    fn write(&self, _l: ConsoleLevel, m: &str) {
        self.0.borrow_mut().push(m.to_string());
    }
}

/// Fixed clock: advances by 1 ms per query so that programs cannot observe real time.
pub struct FixedTime(pub std::cell::Cell<i64>);
impl TimeProvider for FixedTime {
    fn now_millis(&self) -> i64 {
        let v = self.0.get();
        self.0.set(v + 1);
        1_700_000_000_000 + v
    }
    fn elapsed_millis(&self, _start: u64) -> u64 {
        0
    }
    fn start_timer(&self) -> u64 {
        0
    }
}
/// Fixed pseudo-random stream (LCG), identical in every run.
pub struct FixedRandom(pub u64);
impl RandomProvider for FixedRandom {
    fn random(&mut self) -> f64 {
        self.0 = self.0.wrapping_mul(6364136223846793005).wrapping_add(1442695040888963407);
        ((self.0 >> 11) as f64) / ((1u64 << 53) as f64)
    }
}

pub fn new_interp() -> (Interpreter, Log) {
    let log: Log = Rc::new(RefCell::new(Vec::new()));
    let mut i = Interpreter::new();
    i.set_console(Box::new(Cap(log.clone())));
    i.set_time_provider(Box::new(FixedTime(std::cell::Cell::new(0))));
    i.set_random_provider(Box::new(FixedRandom(42)));
    (i, log)
}

pub fn errclass(e: &JsError) -> String {
    match e {
        JsError::SyntaxError { .. } => "SyntaxError".into(),
        JsError::TypeError { .. } => "TypeError".into(),
        JsError::ReferenceError { .. } => "ReferenceError".into(),
        JsError::RangeError { .. } => "RangeError".into(),
        JsError::RuntimeError { kind, .. } => kind.clone(),
        JsError::ModuleError { .. } => "ModuleError".into(),
        JsError::Internal(_) => "Internal".into(),
        JsError::Thrown => "Thrown".into(),
        JsError::ThrownValue { guarded } => format!("Thrown:{}", show(&guarded.value)),
        other => {
            let s = format!("{}", other);
            s.split(':').next().unwrap_or("").to_string()
        }
    }
}

pub fn errmsg(e: &JsError) -> String {
    let s = format!("{}", e);
    s.chars().take(300).collect()
}

/// Host-side rendering of a completion value. Programs under comparison finish with a string
/// produced by the in-program canonical printer, so this only has to be faithful for primitives.
pub fn show(v: &JsValue) -> String {
    match v {
        JsValue::Undefined => "undefined".into(),
        JsValue::Null => "null".into(),
        JsValue::Boolean(b) => format!("{}", b),
        JsValue::Number(n) => shownum(*n),
        JsValue::String(s) => format!("s:{}", s.as_str()),
        JsValue::Symbol(_) => "symbol".into(),
        JsValue::Object(o) if o.borrow().is_callable() => "fn".into(),
        JsValue::Object(_) => {
            match tsrun::js_value_to_json(v) {
                Ok(j) => format!("o:{}", j),
                Err(_) => "o:?".into(),
            }
        }
    }
}

/// Numbers are printed from the raw f64 by Rust, so that a tsrun number-formatting defect (C15)
/// cannot contaminate the observations of other properties.
pub fn shownum(n: f64) -> String {
    if n.is_nan() {
        "n:NaN".into()
    } else if n == 0.0 {
        if n.is_sign_negative() { "n:-0".into() } else { "n:0".into() }
    } else if n.is_infinite() {
        if n > 0.0 { "n:Infinity".into() } else { "n:-Infinity".into() }
    } else {
        format!("n:{:e}", n)
    }
}

#[derive(Clone, Debug, Default)]
pub struct Obs {
    pub status: String, // ok | err | budget | stuck | need | panic
    pub value: String,
    pub err: String,
    pub msg: String,
    pub log: Vec<String>,
    pub steps: u64,
    pub trace: Vec<String>, // non-Continue step results
    pub stale: u64,         // H1 stale-handle events
}
impl Obs {
    pub fn to_json(&self) -> serde_json::Value {
        serde_json::json!({"status":self.status,"value":self.value,"err":self.err,"msg":self.msg,
            "log":self.log,"steps":self.steps,"trace":self.trace,"stale":self.stale})
    }
    /// The part compared across engines / schedules: status, value, log, error class.
    pub fn core(&self) -> String {
        format!("{}|{}|{}|{:?}", self.status, self.value, self.err, self.log)
    }
}

/// Host policy knobs for the generic driver.
#[derive(Clone, Debug)]
pub struct Policy {
    pub gc_threshold: Option<usize>,
    /// force collect() after these step ordinals (1-based); `collect_every` = after every step
    pub collect_after: Vec<u64>,
    pub collect_every: bool,
    pub budget: u64,
    /// modules the host can supply: (resolved path, source)
    pub modules: Vec<(String, String)>,
    /// answer orders immediately with "v<id>" strings
    pub answer_orders: bool,
    pub path: Option<String>,
}
impl Default for Policy {
    fn default() -> Self {
        Policy { gc_threshold: None, collect_after: vec![], collect_every: false, budget: 200_000,
            modules: vec![], answer_orders: true, path: None }
    }
}

pub fn drive(i: &mut Interpreter, log: &Log, first: Result<StepResult, JsError>, p: &Policy) -> Obs {
    let mut o = Obs::default();
    let mut r = first;
    let mut n: u64 = 0;
    loop {
        match r {
            Ok(StepResult::Continue) => {
                n += 1;
                if n > p.budget {
                    o.status = "budget".into();
                    break;
                }
                if p.collect_every || p.collect_after.contains(&n) {
                    i.collect();
                }
                r = i.step();
            }
            Ok(StepResult::Complete(v)) => {
                o.status = "ok".into();
                o.value = show(v.value());
                break;
            }
            Ok(StepResult::NeedImports(reqs)) => {
                o.trace.push(format!("Need{:?}", reqs.iter().map(|q| format!("{}<-{}", q.resolved_path.as_str(),
                    q.importer.as_ref().map(|p| p.as_str().to_string()).unwrap_or("-".into()))).collect::<Vec<_>>()));
                let mut did = false;
                for q in &reqs {
                    if let Some((_, src)) = p.modules.iter().find(|(pa, _)| pa == q.resolved_path.as_str()) {
                        if let Err(e) = i.provide_module(q.resolved_path.clone(), src) {
                            o.status = "err".into();
                            o.err = errclass(&e);
                            o.msg = errmsg(&e);
                            o.log = log.borrow().clone();
                            o.steps = n;
                            return o;
                        }
                        did = true;
                    }
                }
                if !did {
                    o.status = "need".into();
                    break;
                }
                r = i.step();
            }
            Ok(StepResult::Suspended { pending, cancelled }) => {
                o.trace.push(format!("Susp({:?},{:?})", pending.iter().map(|x| x.id.0).collect::<Vec<_>>(),
                    cancelled.iter().map(|x| x.0).collect::<Vec<_>>()));
                if pending.is_empty() || !p.answer_orders {
                    o.status = "stuck".into();
                    break;
                }
                // the suspension window counts as a host step: a forced collection may fall between the
                // suspending step and the resuming one
                n += 1;
                if p.collect_every || p.collect_after.contains(&n) {
                    i.collect();
                }
                let resp: Vec<OrderResponse> = pending.iter().map(|x| OrderResponse { id: x.id,
                    result: Ok(RuntimeValue::unguarded(JsValue::from(format!("v{}", x.id.0)))) }).collect();
                i.fulfill_orders(resp);
                r = i.step();
            }
            Ok(StepResult::Done) => {
                o.status = "done".into();
                break;
            }
            Err(e) => {
                o.status = "err".into();
                o.err = errclass(&e);
                o.msg = errmsg(&e);
                break;
            }
        }
    }
    o.steps = n;
    o.log = log.borrow().clone();
    o
}

pub fn run_program(src: &str, p: &Policy) -> Obs {
    let (mut i, log) = new_interp();
    if let Some(t) = p.gc_threshold {
        i.set_gc_threshold(t);
    }
    let first = i.prepare(src, p.path.as_ref().map(|s| ModulePath::new(s.as_str())));
    drive(&mut i, &log, first, p)
}

/// catch_unwind wrapper that renders the panic payload.
pub fn guarded<F: FnOnce() -> Obs + std::panic::UnwindSafe>(f: F) -> Obs {
    match std::panic::catch_unwind(f) {
        Ok(o) => o,
        Err(p) => {
            let msg = if let Some(s) = p.downcast_ref::<&str>() { s.to_string() }
                else if let Some(s) = p.downcast_ref::<String>() { s.clone() } else { "?".into() };
            Obs { status: "panic".into(), msg: msg.chars().take(300).collect(), ..Default::default() }
        }
    }
}

pub fn sha1_hex(_s: &str) -> String {
    // tiny FNV-1a 64 (no crypto needed harness-side; python computes the real case keys)
    let mut h: u64 = 0xcbf29ce484222325;
    for b in _s.as_bytes() {
        h ^= *b as u64;
        h = h.wrapping_mul(0x100000001b3);
    }
    format!("{:016x}", h)
}
