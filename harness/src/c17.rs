//! C17: explicit-state exploration of C API call histories against a reference model.
//! A state is the history that reaches it (C handles cannot be copied): every history is replayed on
//! fresh real objects through the exported `tsrun_*` symbols (prototypes transcribed from tsrun.h in
//! capi.rs).  Breadth-first over histories, deduplicated by the canonical model state; the oracle is
//! evaluated on every transition, including those into states already seen.
//!
//! usage: tvh c17 explore <depth> <shard> <nshards> <init-states csv> <gcmode 0|1> <curfile>
//!        tvh c17 replay <init> <gcmode> <act;act;...>
use crate::capi::*;
use std::cell::RefCell;
use std::collections::{BTreeMap, HashSet, VecDeque};
use std::ffi::{c_char, c_void, CStr, CString};
use std::ptr;
use std::rc::Rc;

// ------------------------------------------------------------------------------------------ model
#[derive(Clone, Copy, PartialEq, Eq, Debug, PartialOrd, Ord, Hash)]
enum K { Undef, Null, Bool, Num, Str, Obj, Arr, Fun, Nat, Other }
impl K {
    fn code(self) -> char { match self { K::Undef => 'u', K::Null => 'l', K::Bool => 'b', K::Num => 'n', K::Str => 's', K::Obj => 'o', K::Arr => 'a', K::Fun => 'f', K::Nat => 'c', K::Other => 'x' } }
    fn from_code(c: char) -> K { match c { 'u' => K::Undef, 'l' => K::Null, 'b' => K::Bool, 'n' => K::Num, 's' => K::Str, 'o' => K::Obj, 'a' => K::Arr, 'f' => K::Fun, 'c' => K::Nat, _ => K::Other } }
    fn is_objectish(self) -> bool { matches!(self, K::Obj | K::Arr | K::Fun | K::Nat | K::Other) }
}
#[derive(Clone, PartialEq, Debug)]
enum Prim { Undef, Null, Bool(bool), Num(f64), Str(String), Ref(K) }
#[derive(Default, Debug)]
struct ObjModel { props: BTreeMap<String, Prim>, elems: Vec<Prim>, is_array: bool }
struct Val { p: *mut TsRunValue, ctx: usize, k: K, freed: bool, prim: Prim, content: Option<Rc<RefCell<ObjModel>>>, strptr: *const c_char, origin: &'static str,
    /// handle lent by the context (order payload): usable while the order is outstanding, never released by the host
    borrowed: bool,
    /// JSON rendering taken when the handle was obtained; an object nobody mutated must keep rendering the same
    snap: Option<String> }
#[derive(Clone, PartialEq, Debug)]
enum Ex { Idle, Prepared(u8), NeedImports(u8), Suspended(u8, Vec<u64>), Completed(u8), Errored(u8) }
struct Ctx { p: *mut TsRunContext, alive: bool, ex: Ex, steps: u32, inflight: Vec<u8> }
struct World { ctxs: Vec<Ctx>, vals: Vec<Val>, problems: Vec<String>, gcmode: u8, trace: Vec<String>, promise: Option<usize>, promise_order: u64 }

thread_local! {
    static CB_LOG: RefCell<Vec<String>> = const { RefCell::new(Vec::new()) };
    static CB_ORDER_IDS: RefCell<Vec<u64>> = const { RefCell::new(Vec::new()) };
}

fn cs(s: &str) -> CString { CString::new(s).unwrap_or_else(|_| CString::new("?").unwrap()) }

/// validates a C string returned by the API: non-NULL, NUL-terminated (bounded scan), valid UTF-8
unsafe fn check_cstr(p: *const c_char, what: &str, probs: &mut Vec<String>) -> Option<String> {
    if p.is_null() { return None; }
    let mut n = 0usize;
    while *p.add(n) != 0 { n += 1; if n > 1 << 20 { probs.push(format!("{}: string not NUL-terminated within 1 MiB", what)); return None; } }
    match CStr::from_ptr(p).to_str() { Ok(s) => Some(s.to_string()), Err(_) => { probs.push(format!("{}: returned string is not valid UTF-8", what)); None } }
}

// ------------------------------------------------------------------------------------------ callbacks
extern "C" fn native_cb(ctx: *mut TsRunContext, _this: *mut TsRunValue, args: *mut *mut TsRunValue, argc: usize, userdata: *mut c_void, error_out: *mut *const c_char) -> *mut TsRunValue {
    let k = userdata as usize;
    CB_LOG.with(|l| l.borrow_mut().push(format!("cb{}({})", k, argc)));
    unsafe {
        let a0 = if argc > 0 && !args.is_null() { *args } else { ptr::null_mut() };
        match k {
            0 => { let n = if !a0.is_null() && tsrun_is_number(a0) { tsrun_get_number(a0) } else { 0.0 }; tsrun_number(ctx, n + 1.0) }
            1 => { let o = tsrun_object_new(ctx); if o.value.is_null() { return ptr::null_mut(); } let t = tsrun_boolean(ctx, true); let key = cs("made"); tsrun_set(ctx, o.value, key.as_ptr(), t); tsrun_value_free(t); o.value }
            2 => { if a0.is_null() || !tsrun_is_function(a0) { return ptr::null_mut(); } let five = tsrun_number(ctx, 5.0); let mut argv = [five]; let r = tsrun_call(ctx, a0, ptr::null_mut(), argv.as_mut_ptr(), 1); tsrun_value_free(five); if r.value.is_null() { if !error_out.is_null() { *error_out = c"callback: inner call failed".as_ptr(); } return ptr::null_mut(); } r.value }
            3 => { if !error_out.is_null() { *error_out = c"cb-error".as_ptr(); } ptr::null_mut() }
            4 => ptr::null_mut(),
            5 => { let mut id: u64 = 0; let r = tsrun_create_pending_order(ctx, a0, &mut id); CB_ORDER_IDS.with(|l| l.borrow_mut().push(id)); if r.value.is_null() { if !error_out.is_null() { *error_out = c"no pending order".as_ptr(); } return ptr::null_mut(); } r.value }
            6 => { let key = cs("fromcb"); if !a0.is_null() { tsrun_set_global(ctx, key.as_ptr(), a0); } let m = cs("Math"); let g = tsrun_get_global(ctx, m.as_ptr()); if !g.value.is_null() { tsrun_value_free(g.value); } let st = tsrun_gc_stats(ctx); let _ = st.live_objects; if a0.is_null() { ptr::null_mut() } else { tsrun_value_dup(ctx, a0) } }
            7 => { let s = if a0.is_null() { ptr::null_mut() } else { tsrun_json_stringify(ctx, a0) }; let r = if s.is_null() { tsrun_string(ctx, c"null".as_ptr()) } else { tsrun_string(ctx, s) }; if !s.is_null() { tsrun_free_string(s); } r }
            8 => { let mut r = tsrun_run(ctx); let st = r.status; tsrun_step_result_free(&mut r); if !r.value.is_null() { tsrun_value_free(r.value); } tsrun_number(ctx, st as f64) }
            _ => ptr::null_mut(),
        }
    }
}
extern "C" fn console_cb(_level: i32, msg: *const c_char, len: usize, _ud: *mut c_void) {
    let s = if msg.is_null() { String::new() } else { unsafe { String::from_utf8_lossy(std::slice::from_raw_parts(msg as *const u8, len)).to_string() } };
    CB_LOG.with(|l| l.borrow_mut().push(format!("console:{}", s)));
}

// ------------------------------------------------------------------------------------------ programs
const PRE: &str = "import { order } from \"tsrun:host\";\n";
/// (source, path or "", expected completion rendering or "" when history-dependent)
fn program(k: u8) -> (String, &'static str, &'static str) {
    match k {
        0 => ("1 + 1".into(), "", "n:2"),
        // (the symbol-keyed members have no C string form: keys / json_stringify must leave them out consistently)
        1 => ("({ a: [1, 2], [Symbol.iterator]: function () { return 1; }, s: \"x\", [Symbol('t')]: 3 })".into(), "", "o:{\"a\":[1,2],\"s\":\"x\"}"),
        2 => ("import { seven } from './dep.ts';\n'dep:' + seven".into(), "/p/main.ts", "s:dep:7"),
        3 => (format!("{}const r: any = await order({{ k: 1 }});\n'got:' + JSON.stringify(r)", PRE), "/p/main.ts", ""),
        4 => (format!("{}const r: any = await Promise.all([order('a'), order({{ b: 2 }})]);\n'all:' + JSON.stringify(r)", PRE), "/p/main.ts", ""),
        5 => ("typeof nat0 === 'function' ? [1, 2].map(nat0).join() + '|' + nat1().made + '|' + nat2((x: number) => [x].map(nat0)[0]) : 'no-natives'".into(), "", ""),
        6 => ("let r = ''; try { nat3(); } catch (e) { r = 'caught:' + (e as any).message; } r + '|' + String(nat4()) + '|' + nat7({ q: [1] })".into(), "", ""),
        7 => ("export const ex1 = 41; export function exf() { return 'f'; } export default { d: 1 }; ex1 + 1".into(), "/p/main.ts", "n:42"),
        8 => ("const v: any = await nat5({ tag: 'payload' });\n'native-order:' + JSON.stringify(v)".into(), "/p/main.ts", ""),
        9 => ("throw new RangeError('boom')".into(), "", "!"),
        10 => ("this is not ( valid".into(), "", "!prepare"),
        11 => ("let big: any[] = []; for (let i = 0; i < 300; i++) { big.push({ i, s: 'x' + i }); } console.log('n', big.length); big.length".into(), "", "n:300"),
        _ => ("0".into(), "", "n:0"),
    }
}
const NPROG: u8 = 12;

// ------------------------------------------------------------------------------------------ actions
#[derive(Clone, Debug, PartialEq)]
enum Act {
    New(char, u8),            // kind code, variant
    Dup(char), Free(char, u8),      // u8: 0 newest, 1 oldest
    Inspect(char),
    Get(char, u8), Set(char, u8, char), Has(char, u8), Del(char, u8), Keys(char),
    ALen, AGet(u8), ASet(u8, char), APush(char),
    Call(u8), CallMethod(u8), Stringify(char),
    GetGlobal(u8), SetGlobal(char),
    Prepare(u8), Step, Run, Provide(u8), Fulfill(u8), OrderPromise, Resolve(char), Reject,
    GetExport(u8), ExportNames, GcStats, ForceGc, NewCtx, FreeCtx(u8), Module,
}
fn act_str(a: &Act) -> String { format!("{:?}", a).replace(' ', "") }
fn parse_act(s: &str) -> Option<Act> {
    let (name, rest) = match s.find('(') { Some(i) => (&s[..i], s[i + 1..].trim_end_matches(')')), None => (s, "") };
    let parts: Vec<&str> = if rest.is_empty() { vec![] } else { rest.split(',').collect() };
    let ch = |i: usize| parts.get(i).and_then(|p| p.trim_matches('\'').chars().next()).unwrap_or('?');
    let nu = |i: usize| parts.get(i).and_then(|p| p.parse::<u8>().ok()).unwrap_or(0);
    Some(match name {
        "New" => Act::New(ch(0), nu(1)), "Dup" => Act::Dup(ch(0)), "Free" => Act::Free(ch(0), nu(1)), "Inspect" => Act::Inspect(ch(0)),
        "Get" => Act::Get(ch(0), nu(1)), "Set" => Act::Set(ch(0), nu(1), ch(2)), "Has" => Act::Has(ch(0), nu(1)), "Del" => Act::Del(ch(0), nu(1)), "Keys" => Act::Keys(ch(0)),
        "ALen" => Act::ALen, "AGet" => Act::AGet(nu(0)), "ASet" => Act::ASet(nu(0), ch(1)), "APush" => Act::APush(ch(0)),
        "Call" => Act::Call(nu(0)), "CallMethod" => Act::CallMethod(nu(0)), "Stringify" => Act::Stringify(ch(0)),
        "GetGlobal" => Act::GetGlobal(nu(0)), "SetGlobal" => Act::SetGlobal(ch(0)),
        "Prepare" => Act::Prepare(nu(0)), "Step" => Act::Step, "Run" => Act::Run, "Provide" => Act::Provide(nu(0)), "Fulfill" => Act::Fulfill(nu(0)),
        "OrderPromise" => Act::OrderPromise, "Resolve" => Act::Resolve(ch(0)), "Reject" => Act::Reject,
        "GetExport" => Act::GetExport(nu(0)), "ExportNames" => Act::ExportNames, "GcStats" => Act::GcStats, "ForceGc" => Act::ForceGc, "NewCtx" => Act::NewCtx, "FreeCtx" => Act::FreeCtx(nu(0)), "Module" => Act::Module,
        _ => return None,
    })
}
const KEYS: [&str; 3] = ["a", "zz", "héllo"];

impl World {
    fn new(gcmode: u8) -> World { World { ctxs: vec![], vals: vec![], problems: vec![], gcmode, trace: vec![], promise: None, promise_order: 0 } }
    fn bad(&mut self, s: String) { if self.problems.len() < 8 { self.problems.push(s); } }
    fn c0(&self) -> Option<*mut TsRunContext> { self.ctxs.iter().rev().find(|c| c.alive).map(|c| c.p) }
    fn c0i(&self) -> Option<usize> { self.ctxs.iter().rposition(|c| c.alive) }
    /// newest (which=0) or oldest (which=1) live value of a kind belonging to a live context (or any context for Free)
    fn pick(&self, k: K, which: u8, need_live_ctx: bool) -> Option<usize> {
        let it: Vec<usize> = self.vals.iter().enumerate().filter(|(_, v)| !v.freed && v.k == k && (need_live_ctx || !v.borrowed) && (!need_live_ctx || (self.ctxs[v.ctx].alive && Some(v.ctx) == self.c0i()))).map(|(i, _)| i).collect();
        if which == 0 { it.last().copied() } else { it.first().copied() }
    }
    /// gcmode 1: a collection at the first allocation inside every call; gcmode 10+k: at the k-th allocation inside
    /// every call (a call that holds an internal borrow across a later allocation meets the collector there)
    fn before_call(&mut self) {
        if self.gcmode == 1 { tsrun::gc::verif::arm_collect_at(vec![tsrun::gc::verif::alloc_ordinal() + 1]); }
        else if self.gcmode >= 10 { tsrun::gc::verif::arm_collect_at(vec![tsrun::gc::verif::alloc_ordinal() + (self.gcmode as u64 - 10)]); }
    }

    unsafe fn res_ok(&mut self, what: &str, r: TsRunResult, must: Option<bool>) -> bool {
        if !r.ok {
            if r.error.is_null() { self.bad(format!("{}: failed without an error message", what)); }
            else { let mut p = vec![]; check_cstr(r.error, what, &mut p); for x in p { self.bad(x); } }
        }
        if let Some(m) = must { if r.ok != m { self.bad(format!("{}: returned {} where the model says {}", what, if r.ok { "ok" } else { "error" }, if m { "ok" } else { "error" })); } }
        r.ok
    }
    unsafe fn vres(&mut self, what: &str, r: TsRunValueResult, must: Option<bool>) -> *mut TsRunValue {
        if r.value.is_null() {
            if r.error.is_null() { self.bad(format!("{}: NULL value without an error message", what)); }
            else { let mut p = vec![]; check_cstr(r.error, what, &mut p); for x in p { self.bad(x); } }
        }
        if let Some(m) = must { if r.value.is_null() == m { self.bad(format!("{}: returned {} where the model says {}", what, if r.value.is_null() { "error" } else { "a value" }, if m { "a value" } else { "error" })); } }
        r.value
    }
    /// classify a fresh handle by asking the API (also cross-checks the predicates against typeof)
    unsafe fn adopt(&mut self, p: *mut TsRunValue, ctx: usize, expect: Option<K>, origin: &'static str, content: Option<Rc<RefCell<ObjModel>>>) -> Option<usize> {
        if p.is_null() { return None; }
        let t = tsrun_typeof(p);
        let k = match t {
            TSRUN_TYPE_UNDEFINED => K::Undef, TSRUN_TYPE_NULL => K::Null, TSRUN_TYPE_BOOLEAN => K::Bool, TSRUN_TYPE_NUMBER => K::Num, TSRUN_TYPE_STRING => K::Str,
            TSRUN_TYPE_OBJECT => if tsrun_is_array(p) { K::Arr } else if tsrun_is_function(p) { if origin == "native" { K::Nat } else { K::Fun } } else { K::Obj },
            _ => K::Other,
        };
        let preds = [tsrun_is_undefined(p), tsrun_is_null(p), tsrun_is_boolean(p), tsrun_is_number(p), tsrun_is_string(p), tsrun_is_object(p)];
        let want = [t == TSRUN_TYPE_UNDEFINED, t == TSRUN_TYPE_NULL, t == TSRUN_TYPE_BOOLEAN, t == TSRUN_TYPE_NUMBER, t == TSRUN_TYPE_STRING, t == TSRUN_TYPE_OBJECT];
        if preds != want { self.bad(format!("{}: is_* predicates {:?} disagree with typeof {}", origin, preds, t)); }
        if tsrun_is_nullish(p) != (t == TSRUN_TYPE_UNDEFINED || t == TSRUN_TYPE_NULL) { self.bad(format!("{}: is_nullish disagrees with typeof {}", origin, t)); }
        if let Some(e) = expect { if e != k && !(e == K::Fun && k == K::Nat) && !(e == K::Nat && k == K::Fun) { self.bad(format!("{}: value has kind {:?}, the model says {:?}", origin, k, e)); } }
        let prim = match k { K::Undef => Prim::Undef, K::Null => Prim::Null, K::Bool => Prim::Bool(tsrun_get_bool(p)), K::Num => Prim::Num(tsrun_get_number(p)),
            K::Str => { let sp = tsrun_get_string(p); let mut pr = vec![]; let s = check_cstr(sp, origin, &mut pr).unwrap_or_default(); for x in pr { self.bad(x); }
                let n = tsrun_get_string_len(p);
                if n < s.len() { self.bad(format!("{}: get_string_len {} < strlen {}", origin, n, s.len())); }
                else if n > s.len() && !sp.is_null() {
                    // a string with interior NULs: the buffer must still hold get_string_len bytes (plus the terminator)
                    let bytes = std::slice::from_raw_parts(sp as *const u8, s.len() + 1);
                    if bytes[s.len()] == 0 && s.is_empty() { self.bad(format!("{}: get_string returns an empty buffer for a string whose get_string_len is {} (a client reading that many bytes overruns it)", origin, n)); }
                }
                if n > s.len() && !sp.is_null() && !s.is_empty() { let all = std::slice::from_raw_parts(sp as *const u8, n); Prim::Str(String::from_utf8_lossy(all).to_string()) } else { Prim::Str(s) } }
            other => Prim::Ref(other) };
        self.vals.push(Val { p, ctx, k, freed: false, prim, content, strptr: ptr::null(), origin, borrowed: false, snap: None });
        Some(self.vals.len() - 1)
    }
    fn prim_of(&self, i: usize) -> Prim { self.vals[i].prim.clone() }

    // ---------------------------------------------------------------- initial states
    unsafe fn init(&mut self, which: u8) {
        CB_LOG.with(|l| l.borrow_mut().clear()); CB_ORDER_IDS.with(|l| l.borrow_mut().clear());
        tsrun::gc::verif::reset();
        let c = tsrun_new();
        if c.is_null() { self.bad("tsrun_new returned NULL".into()); return; }
        self.ctxs.push(Ctx { p: c, alive: true, ex: Ex::Idle, steps: 0, inflight: vec![] });
        let r = tsrun_set_console(c, Some(console_cb), ptr::null_mut()); self.res_ok("set_console", r, Some(true));
        if which == 0 { return; }
        // fixtures: host-created object / array / primitives, script functions, native functions as globals, an internal module
        let j = cs("{\"a\":1,\"s\":\"x\",\"n\":{\"k\":[1,2]}}"); let r = tsrun_json_parse(c, j.as_ptr()); let p = self.vres("json_parse", r, Some(true));
        let mut m = ObjModel::default(); m.props.insert("a".into(), Prim::Num(1.0)); m.props.insert("s".into(), Prim::Str("x".into())); m.props.insert("n".into(), Prim::Ref(K::Obj));
        self.adopt(p, 0, Some(K::Obj), "fixture-obj", Some(Rc::new(RefCell::new(m))));
        let j = cs("[1,\"two\",{}]"); let r = tsrun_json_parse(c, j.as_ptr()); let p = self.vres("json_parse", r, Some(true));
        let m = ObjModel { elems: vec![Prim::Num(1.0), Prim::Str("two".into()), Prim::Ref(K::Obj)], is_array: true, ..Default::default() };
        self.adopt(p, 0, Some(K::Arr), "fixture-arr", Some(Rc::new(RefCell::new(m))));
        let s = cs("héllo wörld"); let p = tsrun_string(c, s.as_ptr()); self.adopt(p, 0, Some(K::Str), "fixture-str", None);
        let p = tsrun_number(c, 1.5); self.adopt(p, 0, Some(K::Num), "fixture-num", None);
        for k in 0..9usize {
            let name = cs(&format!("nat{}", k)); let r = tsrun_native_function(c, name.as_ptr(), Some(native_cb), 1, k as *mut c_void); let p = self.vres("native_function", r, Some(true));
            if !p.is_null() { let r = tsrun_set_global(c, name.as_ptr(), p); self.res_ok("set_global", r, Some(true)); if k == 0 { self.adopt(p, 0, Some(K::Nat), "native", None); } else { tsrun_value_free(p); } }
        }
        let setup = cs("(globalThis as any).add = function add(a: number, b: number) { return a + b; };\n(globalThis as any).holder = { m(x: any) { return typeof x + ':' + JSON.stringify(x); }, v: 7 };\n(globalThis as any).thrower = function thrower() { throw new TypeError('thrown-by-script'); };\n0");
        let r = tsrun_prepare(c, setup.as_ptr(), ptr::null()); self.res_ok("prepare(setup)", r, Some(true));
        let mut sr = tsrun_run(c); if sr.status != STEP_COMPLETE { self.bad(format!("setup script ended with status {}", sr.status)); } if !sr.value.is_null() { tsrun_value_free(sr.value); } tsrun_step_result_free(&mut sr);
        let g = cs("add"); let r = tsrun_get_global(c, g.as_ptr()); let p = self.vres("get_global(add)", r, Some(true)); self.adopt(p, 0, Some(K::Fun), "fixture-fn", None);
        let m = tsrun_internal_module_new(c"host:mod".as_ptr());
        if !m.is_null() { tsrun_internal_module_add_function(m, c"inc".as_ptr(), Some(native_cb), 1, ptr::null_mut()); let v = tsrun_number(c, 41.0); tsrun_internal_module_add_value(m, c"val".as_ptr(), v); /* ownership of v moves to the module (examples/c-embedding/internal_modules.c) */ let r = tsrun_register_internal_module(c, m); self.res_ok("register_internal_module", r, Some(true)); }
        match which {
            2 => { self.apply(&Act::Prepare(4)); self.apply(&Act::Run); }          // suspended with two pending orders
            3 => { self.apply(&Act::Prepare(1)); self.apply(&Act::Run); }          // completed with an object value (handle live)
            4 => { self.apply(&Act::Prepare(2)); self.apply(&Act::Run); }          // waiting for imports
            5 => { self.apply(&Act::Prepare(8)); self.apply(&Act::Run); }          // suspended on an order created by a native callback
            6 => { self.apply(&Act::FreeCtx(0)); }                                 // context freed, fixtures survive
            7 => { self.apply(&Act::Prepare(7)); self.apply(&Act::Run); }          // module with exports completed
            _ => {}
        }
    }

    // ---------------------------------------------------------------- enabled actions (all within the header's contract)
    fn enabled(&self, full: bool) -> Vec<Act> {
        let mut v = vec![];
        let live_ctx = self.c0i().is_some();
        let kinds = [K::Undef, K::Null, K::Bool, K::Num, K::Str, K::Obj, K::Arr, K::Fun, K::Nat, K::Other];
        for k in kinds { if self.pick(k, 0, false).is_some() { v.push(Act::Free(k.code(), 0)); if self.vals.iter().filter(|x| !x.freed && x.k == k).count() > 1 { v.push(Act::Free(k.code(), 1)); } } }
        if !live_ctx { if self.ctxs.len() < 2 { v.push(Act::NewCtx); } return v; }
        for (c, n) in [('u', 1), ('l', 1), ('b', 2), ('n', 3), ('s', 3), ('o', 1), ('a', 1), ('j', 3), ('c', 2)] { for i in 0..n { v.push(Act::New(c, i)); } }
        for k in kinds { if self.pick(k, 0, true).is_some() { v.push(Act::Inspect(k.code())); if matches!(k, K::Num | K::Str | K::Obj | K::Fun | K::Arr) { v.push(Act::Dup(k.code())); } if matches!(k, K::Num | K::Str | K::Obj | K::Arr | K::Undef) { v.push(Act::Stringify(k.code())); v.push(Act::SetGlobal(k.code())); } } }
        for host in [K::Obj, K::Arr, K::Fun] { if self.pick(host, 0, true).is_some() {
            for key in 0..3u8 { v.push(Act::Get(host.code(), key)); v.push(Act::Has(host.code(), key)); if host != K::Fun || key == 0 { v.push(Act::Del(host.code(), key)); } }
            for key in [0u8, 2] { for vk in [K::Num, K::Str, K::Obj, K::Undef] { if self.pick(vk, 0, true).is_some() { v.push(Act::Set(host.code(), key, vk.code())); } } }
            v.push(Act::Keys(host.code()));
        } }
        if self.pick(K::Arr, 0, true).is_some() { v.push(Act::ALen); v.push(Act::AGet(0)); v.push(Act::AGet(5)); for vk in [K::Num, K::Obj, K::Str] { if self.pick(vk, 0, true).is_some() { v.push(Act::ASet(0, vk.code())); v.push(Act::ASet(7, vk.code())); v.push(Act::APush(vk.code())); } } }
        if self.pick(K::Fun, 0, true).is_some() { for i in 0..3 { v.push(Act::Call(i)); } }
        if self.pick(K::Nat, 0, true).is_some() { v.push(Act::Call(3)); v.push(Act::Call(4)); }
        for i in 0..3 { v.push(Act::CallMethod(i)); }
        for i in 0..4 { v.push(Act::GetGlobal(i)); }
        for p in 0..NPROG { v.push(Act::Prepare(p)); }
        v.push(Act::Step); v.push(Act::Run); v.push(Act::Provide(0)); v.push(Act::Provide(1));
        for f in 0..7 { v.push(Act::Fulfill(f)); }
        v.push(Act::OrderPromise); if self.promise.is_some() { v.push(Act::Resolve('n')); v.push(Act::Resolve('o')); v.push(Act::Reject); }
        v.push(Act::GetExport(0)); v.push(Act::GetExport(1)); v.push(Act::ExportNames); v.push(Act::GcStats); v.push(Act::ForceGc); v.push(Act::Module);
        if self.ctxs.len() < 2 && full { v.push(Act::NewCtx); }
        v.push(Act::FreeCtx(0));
        v
    }

    // ---------------------------------------------------------------- canonical model state
    fn key(&self) -> String {
        let mut vs: Vec<String> = self.vals.iter().filter(|v| !v.freed).map(|v| format!("{}{}{}{}{}", v.k.code(), v.ctx, if self.ctxs[v.ctx].alive { "" } else { "!" }, if v.borrowed { "~" } else { "" },
            match &v.content { Some(c) => { let c = c.borrow(); format!("{{{:?}{:?}}}", c.props, c.elems) } None => match &v.prim { Prim::Num(n) => format!("{}", n), Prim::Str(s) => format!("{:?}", s), Prim::Bool(b) => format!("{}", b), _ => String::new() } })).collect();
        vs.sort();
        let cx: Vec<String> = self.ctxs.iter().map(|c| format!("{}:{:?}:{:?}:{}", c.alive, c.ex, c.inflight, c.steps)).collect();
        format!("{:?}|{:?}|p{}", cx, vs, self.promise.is_some())
    }

    // ---------------------------------------------------------------- step results
    unsafe fn take_step(&mut self, what: &str, mut sr: TsRunStepResult) {
        let ci = match self.c0i() { Some(i) => i, None => return };
        let prog = match &self.ctxs[ci].ex { Ex::Prepared(p) | Ex::NeedImports(p) | Ex::Suspended(p, _) | Ex::Completed(p) | Ex::Errored(p) => Some(*p), Ex::Idle => None };
        let st = sr.status;
        if st != STEP_CONTINUE { self.ctxs[ci].inflight.clear(); }
        self.trace.push(format!("{}->{}", what, st));
        match st {
            STEP_CONTINUE => { if what == "run" { self.bad("tsrun_run returned CONTINUE".into()); } }
            STEP_COMPLETE => {
                let rendered = if sr.value.is_null() { "NULL".to_string() } else { self.render(sr.value) };
                if let Some(p) = prog { let (_, _, exp) = program(p); if !exp.is_empty() && !exp.starts_with('!') && rendered != exp { self.bad(format!("program {} completed with {} instead of {}", p, rendered, exp)); }
                    if exp.starts_with('!') { self.bad(format!("program {} completed although it must fail", p)); }
                    self.check_completion(p, &rendered); }
                if sr.value.is_null() { self.bad("COMPLETE without a value".into()); } else { let c = ci; self.adopt(sr.value, c, None, "complete-value", None); }
                self.ctxs[ci].ex = Ex::Completed(prog.unwrap_or(255));
            }
            STEP_NEED_IMPORTS => {
                if sr.imports.is_null() || sr.import_count == 0 { self.bad("NEED_IMPORTS without requests".into()); }
                for i in 0..sr.import_count { let q = &*sr.imports.add(i); let mut p = vec![]; let spec = check_cstr(q.specifier, "import.specifier", &mut p); let res = check_cstr(q.resolved_path, "import.resolved_path", &mut p); check_cstr(q.importer, "import.importer", &mut p); for x in p { self.bad(x); }
                    if spec.is_none() || res.is_none() { self.bad("import request with NULL specifier/resolved_path".into()); } }
                self.ctxs[ci].ex = Ex::NeedImports(prog.unwrap_or(255));
            }
            STEP_SUSPENDED => {
                let mut ids = match &self.ctxs[ci].ex { Ex::Suspended(_, ids) => ids.clone(), _ => vec![] };
                for i in 0..sr.pending_count { let o = &*sr.pending_orders.add(i); if ids.contains(&o.id) { self.bad(format!("order {} reported twice", o.id)); } ids.push(o.id);
                    if o.payload.is_null() { self.bad("pending order with NULL payload".into()); } else { let r = self.render(o.payload); self.trace.push(format!("order{}={}", o.id, r));
                        // the payload handle stays usable while the order is outstanding ("owned by context": never released by the host)
                        if let Some(vi) = self.adopt(o.payload, ci, None, "order-payload", None) { self.vals[vi].borrowed = true; if self.vals[vi].k.is_objectish() { self.vals[vi].snap = Some(r); } } } }
                self.ctxs[ci].ex = Ex::Suspended(prog.unwrap_or(255), ids);
            }
            STEP_DONE => { if matches!(self.ctxs[ci].ex, Ex::Prepared(_)) { self.bad("DONE right after a successful prepare".into()); } }
            STEP_ERROR => {
                let mut p = vec![]; let e = check_cstr(sr.error, "step.error", &mut p); for x in p { self.bad(x); }
                if e.is_none() { self.bad("ERROR status without a message".into()); }
                if let Some(pg) = prog { let (_, _, exp) = program(pg); if !exp.is_empty() && !exp.starts_with('!') && matches!(self.ctxs[ci].ex, Ex::Prepared(_)) { self.bad(format!("program {} failed: {}", pg, e.clone().unwrap_or_default())); } }
                self.ctxs[ci].ex = Ex::Errored(prog.unwrap_or(255));
            }
            other => self.bad(format!("unknown step status {}", other)),
        }
        tsrun_step_result_free(&mut sr);
    }
    /// history-dependent completions: what the script saw must be what the host supplied
    fn check_completion(&mut self, p: u8, rendered: &str) {
        match p {
            3 | 4 | 8 => { for bad in ["RECYCLED", "undefined\"", "[object"] { if rendered.contains(bad) { self.bad(format!("program {} saw a corrupted host value: {}", p, rendered)); } }
                if !(rendered.starts_with("s:got:") || rendered.starts_with("s:all:") || rendered.starts_with("s:native-order:")) { self.bad(format!("program {} completed with {}", p, rendered)); } }
            5 => { if rendered != "s:2,3|true|6" && rendered != "s:no-natives" { self.bad(format!("native callbacks: program 5 gives {} instead of s:2,3|true|6", rendered)); } }
            6 => { if rendered != "s:caught:cb-error|undefined|{\"q\":[1]}" && !rendered.contains("nat3 is not defined") { self.bad(format!("native callbacks: program 6 gives {}", rendered)); } }
            _ => {}
        }
    }
    unsafe fn render(&mut self, p: *mut TsRunValue) -> String {
        match tsrun_typeof(p) {
            TSRUN_TYPE_UNDEFINED => "undefined".into(), TSRUN_TYPE_NULL => "null".into(), TSRUN_TYPE_BOOLEAN => format!("{}", tsrun_get_bool(p)),
            TSRUN_TYPE_NUMBER => format!("n:{}", tsrun_get_number(p)),
            TSRUN_TYPE_STRING => { let mut pr = vec![]; let s = check_cstr(tsrun_get_string(p), "render", &mut pr).unwrap_or_default(); for x in pr { self.bad(x); } format!("s:{}", s) }
            _ => { let c = match self.c0() { Some(c) => c, None => return "o:?".into() }; let s = tsrun_json_stringify(c, p); if s.is_null() { return "o:<unserialisable>".into(); } let mut pr = vec![]; let r = check_cstr(s, "json_stringify", &mut pr).unwrap_or_default(); for x in pr { self.bad(x); } tsrun_free_string(s); format!("o:{}", r) }
        }
    }

    // ---------------------------------------------------------------- apply one action: real call + oracle + model update
    unsafe fn apply(&mut self, a: &Act) {
        self.before_call();
        let ci = self.c0i(); let c = self.c0().unwrap_or(ptr::null_mut());
        match a {
            Act::New(kc, var) => { let ci = match ci { Some(i) => i, None => return };
                match kc {
                    'u' => { let p = tsrun_undefined(c); self.adopt(p, ci, Some(K::Undef), "undefined", None); }
                    'l' => { let p = tsrun_null(c); self.adopt(p, ci, Some(K::Null), "null", None); }
                    'b' => { let p = tsrun_boolean(c, *var == 1); let i = self.adopt(p, ci, Some(K::Bool), "boolean", None); if let Some(i) = i { if self.vals[i].prim != Prim::Bool(*var == 1) { self.bad("boolean does not read back".into()); } } }
                    'n' => { let n = [0.5, -0.0, f64::NAN][*var as usize % 3]; let p = tsrun_number(c, n); let i = self.adopt(p, ci, Some(K::Num), "number", None); if let Some(i) = i { if let Prim::Num(m) = self.vals[i].prim { if m.to_bits() != n.to_bits() && !(m.is_nan() && n.is_nan()) { self.bad(format!("number {} reads back as {}", n, m)); } } } }
                    's' => { let (p, want) = match var { 0 => { let s = cs("plain"); (tsrun_string(c, s.as_ptr()), "plain".to_string()) } 1 => { let s = cs("ünï\u{1F600}"); (tsrun_string(c, s.as_ptr()), "ünï\u{1F600}".to_string()) } _ => { let b = b"ab\0cd"; (tsrun_string_len(c, b.as_ptr() as *const c_char, 5), "ab\0cd".to_string()) } };
                        if p.is_null() { self.bad("string constructor returned NULL".into()); return; }
                        let i = self.adopt(p, ci, Some(K::Str), "string", None);
                        if let Some(i) = i { if *var < 2 { if self.vals[i].prim != Prim::Str(want.clone()) { self.bad(format!("string {:?} reads back as {:?}", want, self.vals[i].prim)); } } else if tsrun_get_string_len(p) != 5 { self.bad(format!("string_len(5 bytes with NUL) has length {}", tsrun_get_string_len(p))); } } }
                    'o' => { let r = tsrun_object_new(c); let p = self.vres("object_new", r, Some(true)); self.adopt(p, ci, Some(K::Obj), "object_new", Some(Rc::new(RefCell::new(ObjModel::default())))); }
                    'a' => { let r = tsrun_array_new(c); let p = self.vres("array_new", r, Some(true)); self.adopt(p, ci, Some(K::Arr), "array_new", Some(Rc::new(RefCell::new(ObjModel { is_array: true, ..Default::default() })))); }
                    'j' => { let (txt, ok) = [("{\"k\":[true,null]}", true), ("[1,2", false), ("\"str\"", true)][*var as usize % 3]; let s = cs(txt); let r = tsrun_json_parse(c, s.as_ptr()); let p = self.vres("json_parse", r, Some(ok));
                        if *var == 0 { let mut m = ObjModel::default(); m.props.insert("k".into(), Prim::Ref(K::Arr)); self.adopt(p, ci, Some(K::Obj), "json_parse", Some(Rc::new(RefCell::new(m)))); } else { self.adopt(p, ci, None, "json_parse", None); } }
                    'c' => { let k = if *var == 0 { 0usize } else { 6 }; let name = cs("fresh"); let r = tsrun_native_function(c, name.as_ptr(), Some(native_cb), 2, k as *mut c_void); let p = self.vres("native_function", r, Some(true)); self.adopt(p, ci, Some(K::Nat), "native", None); }
                    _ => {}
                } }
            Act::Dup(kc) => { if let (Some(i), Some(ci)) = (self.pick(K::from_code(*kc), 0, true), ci) { let p = tsrun_value_dup(c, self.vals[i].p); if p.is_null() { self.bad("value_dup returned NULL".into()); return; } let content = self.vals[i].content.clone(); let k = self.vals[i].k; let j = self.adopt(p, ci, Some(k), "dup", content); if let Some(j) = j { if self.vals[j].prim != self.vals[i].prim && !matches!(self.vals[i].prim, Prim::Num(n) if n.is_nan()) { self.bad("dup reads differently from the original".into()); } } } }
            Act::Free(kc, which) => { if let Some(i) = self.pick(K::from_code(*kc), *which, false) {
                // a string pointer handed out earlier must still be intact right before the value is freed
                if !self.vals[i].strptr.is_null() && self.ctxs[self.vals[i].ctx].alive { let mut pr = vec![]; let s = check_cstr(self.vals[i].strptr, "get_string (held until free)", &mut pr); for x in pr { self.bad(x); } if let (Some(s), Prim::Str(m)) = (s, &self.vals[i].prim) { if !m.starts_with(&s) || (s.len() != m.len() && !m.contains('\0')) { self.bad(format!("get_string pointer changed content before the value was freed: {:?} vs {:?}", s, m)); } } }
                tsrun_value_free(self.vals[i].p); self.vals[i].freed = true; if self.promise == Some(i) { self.promise = None; } } }
            Act::Inspect(kc) => { if let Some(i) = self.pick(K::from_code(*kc), 0, true) { let p = self.vals[i].p;
                let now = match self.vals[i].k { K::Bool => Prim::Bool(tsrun_get_bool(p)), K::Num => Prim::Num(tsrun_get_number(p)), K::Str => { let sp = tsrun_get_string(p); self.vals[i].strptr = sp; let mut pr = vec![]; let s = check_cstr(sp, "get_string", &mut pr).unwrap_or_default(); for x in pr { self.bad(x); } let n = tsrun_get_string_len(p); if n > s.len() && !sp.is_null() && !s.is_empty() { Prim::Str(String::from_utf8_lossy(std::slice::from_raw_parts(sp as *const u8, n)).to_string()) } else { Prim::Str(s) } } _ => self.vals[i].prim.clone() };
                let same = match (&now, &self.vals[i].prim) { (Prim::Num(a), Prim::Num(b)) => a.to_bits() == b.to_bits() || (a.is_nan() && b.is_nan()), (a, b) => a == b };
                if !same { self.bad(format!("value changed under a live handle: {:?} -> {:?}", self.vals[i].prim, now)); }
                let t = tsrun_typeof(p); let want = match self.vals[i].k { K::Undef => 0, K::Null => 1, K::Bool => 2, K::Num => 3, K::Str => 4, _ => 5 }; if t != want { self.bad(format!("typeof changed to {} for a {:?}", t, self.vals[i].k)); }
                if let Some(sn) = self.vals[i].snap.clone() { let now = self.render(p); if now != sn { self.bad(format!("object behind a live {} handle changed without being written: {} -> {}", self.vals[i].origin, sn, now)); } }
                if self.vals[i].k == K::Arr { if let Some(m) = &self.vals[i].content { let n = tsrun_array_len(p); if n != m.borrow().elems.len() { self.bad(format!("array_len {} but the model has {}", n, m.borrow().elems.len())); } } } } }
            Act::Get(hc, key) => { if let (Some(i), Some(ci)) = (self.pick(K::from_code(*hc), 0, true), ci) { let k = cs(KEYS[*key as usize]); let r = tsrun_get(c, self.vals[i].p, k.as_ptr()); let p = self.vres("get", r, Some(true));
                let expect = self.vals[i].content.as_ref().map(|m| m.borrow().props.get(KEYS[*key as usize]).cloned().unwrap_or(Prim::Undef));
                let j = self.adopt(p, ci, None, "get", None);
                if let (Some(j), Some(e)) = (j, expect) { if self.vals[i].k == K::Obj { let got = self.prim_of(j); let ok = match (&e, &got) { (Prim::Ref(_), Prim::Ref(_)) => true, (Prim::Num(a), Prim::Num(b)) => a.to_bits() == b.to_bits() || (a.is_nan() && b.is_nan()), (a, b) => a == b }; if !ok { self.bad(format!("get({}) gives {:?}, the model says {:?}", KEYS[*key as usize], got, e)); } } } } }
            Act::Set(hc, key, vc) => { if let (Some(i), Some(j)) = (self.pick(K::from_code(*hc), 0, true), self.pick(K::from_code(*vc), 0, true)) { let k = cs(KEYS[*key as usize]); let r = tsrun_set(c, self.vals[i].p, k.as_ptr(), self.vals[j].p); let ok = self.res_ok("set", r, Some(true));
                self.vals[i].snap = None;
                if ok { let pv = self.prim_of(j); if let Some(m) = &self.vals[i].content { m.borrow_mut().props.insert(KEYS[*key as usize].into(), pv); } } } }
            Act::Has(hc, key) => { if let Some(i) = self.pick(K::from_code(*hc), 0, true) { let k = cs(KEYS[*key as usize]); let h = tsrun_has(c, self.vals[i].p, k.as_ptr()); if let Some(m) = &self.vals[i].content { if self.vals[i].k == K::Obj { let want = m.borrow().props.contains_key(KEYS[*key as usize]); if h != want { self.bad(format!("has({}) = {}, the model says {}", KEYS[*key as usize], h, want)); } } } } }
            Act::Del(hc, key) => { if let Some(i) = self.pick(K::from_code(*hc), 0, true) { let k = cs(KEYS[*key as usize]); let r = tsrun_delete(c, self.vals[i].p, k.as_ptr()); let ok = self.res_ok("delete", r, None); self.vals[i].snap = None; if ok { if let Some(m) = &self.vals[i].content { m.borrow_mut().props.remove(KEYS[*key as usize]); } } } }
            Act::Keys(hc) => { if let Some(i) = self.pick(K::from_code(*hc), 0, true) { let mut n: usize = 0; let ks = tsrun_keys(c, self.vals[i].p, &mut n); let mut got = vec![];
                if !ks.is_null() { for x in 0..n { let mut pr = vec![]; if let Some(s) = check_cstr(*ks.add(x), "keys", &mut pr) { got.push(s); } else { self.bad("keys: NULL entry".into()); } for y in pr { self.bad(y); } } tsrun_free_strings(ks, n); } else if n != 0 { self.bad(format!("keys returned NULL with count {}", n)); }
                if let Some(m) = &self.vals[i].content { if self.vals[i].k == K::Obj { let mut want: Vec<String> = m.borrow().props.keys().cloned().collect(); want.sort(); got.sort(); if want != got { self.bad(format!("keys {:?}, the model says {:?}", got, want)); } } } } }
            Act::ALen => { if let Some(i) = self.pick(K::Arr, 0, true) { let n = tsrun_array_len(self.vals[i].p); if let Some(m) = &self.vals[i].content { if n != m.borrow().elems.len() { self.bad(format!("array_len {} but the model has {}", n, m.borrow().elems.len())); } } } }
            Act::AGet(ix) => { if let (Some(i), Some(ci)) = (self.pick(K::Arr, 0, true), ci) { let r = tsrun_array_get(c, self.vals[i].p, *ix as usize); let p = self.vres("array_get", r, None); let expect = self.vals[i].content.as_ref().map(|m| m.borrow().elems.get(*ix as usize).cloned().unwrap_or(Prim::Undef)); let j = self.adopt(p, ci, None, "array_get", None);
                if let (Some(j), Some(e)) = (j, expect) { let got = self.prim_of(j); let ok = match (&e, &got) { (Prim::Ref(_), Prim::Ref(_)) => true, (Prim::Num(a), Prim::Num(b)) => a.to_bits() == b.to_bits() || (a.is_nan() && b.is_nan()), (a, b) => a == b }; if !ok { self.bad(format!("array_get({}) gives {:?}, the model says {:?}", ix, got, e)); } } } }
            Act::ASet(ix, vc) => { if let (Some(i), Some(j)) = (self.pick(K::Arr, 0, true), self.pick(K::from_code(*vc), 0, true)) { let r = tsrun_array_set(c, self.vals[i].p, *ix as usize, self.vals[j].p); let ok = self.res_ok("array_set", r, None); if ok { let pv = self.prim_of(j); if let Some(m) = &self.vals[i].content { let mut m = m.borrow_mut(); while m.elems.len() <= *ix as usize { m.elems.push(Prim::Undef); } m.elems[*ix as usize] = pv; } } } }
            Act::APush(vc) => { if let (Some(i), Some(j)) = (self.pick(K::Arr, 0, true), self.pick(K::from_code(*vc), 0, true)) { let r = tsrun_array_push(c, self.vals[i].p, self.vals[j].p); let ok = self.res_ok("array_push", r, Some(true)); if ok { let pv = self.prim_of(j); if let Some(m) = &self.vals[i].content { m.borrow_mut().elems.push(pv); } } } }
            Act::Call(v) => { let ci = match ci { Some(i) => i, None => return };
                let (f, args, want): (Option<usize>, Vec<*mut TsRunValue>, Option<&str>) = match v {
                    0 => { let a = tsrun_number(c, 2.0); let b = tsrun_number(c, 40.0); (self.pick(K::Fun, 0, true), vec![a, b], Some("n:42")) }
                    1 => (self.pick(K::Fun, 0, true), vec![], None),
                    2 => { let o = self.pick(K::Obj, 0, true).map(|i| tsrun_value_dup(c, self.vals[i].p)).unwrap_or(ptr::null_mut()); (self.pick(K::Fun, 0, true), if o.is_null() { vec![] } else { vec![o] }, None) }
                    3 => { let a = tsrun_number(c, 9.0); (self.pick(K::Nat, 0, true), vec![a], None) }
                    _ => (self.pick(K::Nat, 0, true), vec![], None),
                };
                if let Some(fi) = f { let mut argv = args.clone(); let r = tsrun_call(c, self.vals[fi].p, ptr::null_mut(), if argv.is_empty() { ptr::null_mut() } else { argv.as_mut_ptr() }, argv.len()); let p = self.vres("call", r, None);
                    if !p.is_null() { let rendered = self.render(p); if let Some(w) = want { if self.vals[fi].origin == "fixture-fn" && rendered != w { self.bad(format!("add(2,40) called through the API gives {}", rendered)); } } self.adopt(p, ci, None, "call-result", None); } }
                for a in args { if !a.is_null() { tsrun_value_free(a); } } }
            Act::CallMethod(v) => { let ci = match ci { Some(i) => i, None => return }; let h = cs("holder"); let r = tsrun_get_global(c, h.as_ptr()); if r.value.is_null() { return; } let holder = r.value; if !tsrun_is_object(holder) { tsrun_value_free(holder); return; }
                let (m, args): (&str, Vec<*mut TsRunValue>) = match v { 0 => ("m", vec![tsrun_string(c, c"arg".as_ptr())]), 1 => ("nope", vec![]), _ => ("m", self.pick(K::Obj, 0, true).map(|i| vec![tsrun_value_dup(c, self.vals[i].p)]).unwrap_or_default()) };
                let mn = cs(m); let mut argv = args.clone(); let r = tsrun_call_method(c, holder, mn.as_ptr(), if argv.is_empty() { ptr::null_mut() } else { argv.as_mut_ptr() }, argv.len()); let p = self.vres("call_method", r, if *v == 1 { Some(false) } else if *v == 0 { Some(true) } else { None });
                if !p.is_null() { let rendered = self.render(p); if *v == 0 && rendered != "s:string:\"arg\"" { self.bad(format!("holder.m('arg') gives {}", rendered)); } self.adopt(p, ci, None, "method-result", None); }
                for a in args { if !a.is_null() { tsrun_value_free(a); } } tsrun_value_free(holder); }
            Act::Stringify(kc) => { if let Some(i) = self.pick(K::from_code(*kc), 0, true) { let s = tsrun_json_stringify(c, self.vals[i].p); if !s.is_null() { let mut pr = vec![]; let t = check_cstr(s, "json_stringify", &mut pr); for x in pr { self.bad(x); }
                    if let (Some(t), Prim::Num(n)) = (&t, &self.vals[i].prim) { if n.is_finite() && t.parse::<f64>().ok() != Some(*n) { self.bad(format!("json_stringify({}) = {}", n, t)); } }
                    if let (Some(t), Prim::Str(sv)) = (&t, &self.vals[i].prim) { if serde_json::from_str::<String>(t).ok().as_ref() != Some(sv) { self.bad(format!("json_stringify({:?}) = {}", sv, t)); } }
                    tsrun_free_string(s); } else if matches!(self.vals[i].k, K::Num | K::Str) { self.bad(format!("json_stringify returned NULL for a {:?}", self.vals[i].k)); } } }
            Act::GetGlobal(v) => { let ci = match ci { Some(i) => i, None => return }; let name = ["add", "definitelyMissing", "Math", "g1"][*v as usize % 4]; let n = cs(name); let r = tsrun_get_global(c, n.as_ptr()); let p = self.vres("get_global", r, None); self.adopt(p, ci, None, "global", None); }
            Act::SetGlobal(kc) => { if let Some(i) = self.pick(K::from_code(*kc), 0, true) { let r = tsrun_set_global(c, c"g1".as_ptr(), self.vals[i].p); self.res_ok("set_global", r, Some(true));
                let r = tsrun_get_global(c, c"g1".as_ptr()); let p = self.vres("get_global(g1)", r, Some(true)); if !p.is_null() { let t = tsrun_typeof(p); let want = match self.vals[i].k { K::Undef => 0, K::Null => 1, K::Bool => 2, K::Num => 3, K::Str => 4, _ => 5 }; if t != want { self.bad(format!("global g1 reads back with typeof {} after setting a {:?}", t, self.vals[i].k)); } tsrun_value_free(p); } } }
            Act::Prepare(pk) => { if let Some(ci) = ci { let (src, path, exp) = program(*pk); let s = cs(&src); let pa = cs(path); let r = tsrun_prepare(c, s.as_ptr(), if path.is_empty() { ptr::null() } else { pa.as_ptr() }); let ok = self.res_ok("prepare", r, Some(exp != "!prepare")); self.ctxs[ci].steps = 0; self.ctxs[ci].inflight.clear(); self.ctxs[ci].ex = if ok { Ex::Prepared(*pk) } else { Ex::Errored(*pk) }; self.promise = None; } }
            Act::Step => { if let Some(ci) = ci { if self.ctxs[ci].steps < 3 { self.ctxs[ci].steps += 1; let sr = tsrun_step(c); self.take_step("step", sr); } } }
            Act::Run => { if ci.is_some() { let sr = tsrun_run(c); self.take_step("run", sr); } }
            Act::Provide(v) => { if ci.is_some() { let (path, src) = if *v == 0 { ("/p/dep.ts", "export const seven = 7;") } else { ("/p/dep.ts", "export const seven = ;") }; let p = cs(path); let s = cs(src); let r = tsrun_provide_module(c, p.as_ptr(), s.as_ptr()); self.res_ok("provide_module", r, if *v == 1 { Some(false) } else { None }); } }
            Act::Fulfill(v) => { if let Some(ci) = ci { let ids: Vec<u64> = match &self.ctxs[ci].ex { Ex::Suspended(_, ids) => ids.clone(), _ => vec![] }; let first = ids.first().copied().unwrap_or(1);
                match v {
                    0 => { let val = tsrun_string(c, c"R".as_ptr()); let resp: Vec<TsRunOrderResponse> = ids.iter().map(|id| TsRunOrderResponse { id: *id, value: val, error: ptr::null() }).collect(); let r = tsrun_fulfill_orders(c, resp.as_ptr(), resp.len()); self.res_ok("fulfill_orders", r, Some(true)); tsrun_value_free(val); }
                    1 => { // object response, handle released right after submitting, then allocation pressure before the script reads it
                        let j = cs("{\"tag\":\"fresh\",\"list\":[1,2,3]}"); let o = tsrun_json_parse(c, j.as_ptr()); if o.value.is_null() { return; } let resp: Vec<TsRunOrderResponse> = ids.iter().map(|id| TsRunOrderResponse { id: *id, value: o.value, error: ptr::null() }).collect(); let r = tsrun_fulfill_orders(c, resp.as_ptr(), resp.len()); self.res_ok("fulfill_orders", r, Some(true)); tsrun_value_free(o.value);
                        for _ in 0..40 { let j = cs("{\"RECYCLED\":[\"RECYCLED\",{\"RECYCLED\":1}]}"); let x = tsrun_json_parse(c, j.as_ptr()); if !x.value.is_null() { tsrun_value_free(x.value); } } }
                    2 => { let resp = [TsRunOrderResponse { id: first, value: ptr::null_mut(), error: c"host-says-no".as_ptr() }]; let r = tsrun_fulfill_orders(c, resp.as_ptr(), 1); self.res_ok("fulfill_orders(error)", r, None); }
                    3 => { let resp = [TsRunOrderResponse { id: first, value: ptr::null_mut(), error: ptr::null() }]; let r = tsrun_fulfill_orders(c, resp.as_ptr(), 1); self.res_ok("fulfill_orders(NULL value)", r, None); }
                    4 => { let val = tsrun_number(c, 7.0); let resp = [TsRunOrderResponse { id: 987654, value: val, error: ptr::null() }]; let r = tsrun_fulfill_orders(c, resp.as_ptr(), 1); self.res_ok("fulfill_orders(unknown id)", r, None); tsrun_value_free(val); }
                    5 => { let r = tsrun_fulfill_orders(c, ptr::null(), 0); self.res_ok("fulfill_orders(empty)", r, Some(true)); }
                    _ => { let val = tsrun_string(c, c"dup".as_ptr()); let resp = [TsRunOrderResponse { id: first, value: val, error: ptr::null() }, TsRunOrderResponse { id: first, value: val, error: ptr::null() }]; let r = tsrun_fulfill_orders(c, resp.as_ptr(), 2); self.res_ok("fulfill_orders(duplicate id)", r, None); tsrun_value_free(val); }
                }
                self.ctxs[ci].inflight.push(*v);
                if let Ex::Suspended(p, ids) = self.ctxs[ci].ex.clone() { if matches!(v, 0 | 1) { self.ctxs[ci].ex = Ex::Suspended(p, vec![]); } else if matches!(v, 2 | 3 | 6) { self.ctxs[ci].ex = Ex::Suspended(p, ids.into_iter().skip(1).collect()); } } } }
            Act::OrderPromise => { if let Some(ci) = ci { self.promise_order += 1; let r = tsrun_create_order_promise(c, 5000 + self.promise_order); let p = self.vres("create_order_promise", r, None); if let Some(i) = self.adopt(p, ci, None, "order-promise", None) { self.promise = Some(i); } } }
            Act::Resolve(kc) => { if let Some(pi) = self.promise { if !self.vals[pi].freed { let v = if *kc == 'n' { tsrun_number(c, 3.0) } else { let r = tsrun_object_new(c); r.value }; let r = tsrun_resolve_promise(c, self.vals[pi].p, v); self.res_ok("resolve_promise", r, None); if !v.is_null() { tsrun_value_free(v); } } } }
            Act::Reject => { if let Some(pi) = self.promise { if !self.vals[pi].freed { let r = tsrun_reject_promise(c, self.vals[pi].p, c"rejected-by-host".as_ptr()); self.res_ok("reject_promise", r, None); } } }
            Act::GetExport(v) => { if let Some(ci) = ci { let n = cs(if *v == 0 { "ex1" } else { "missing" }); let r = tsrun_get_export(c, n.as_ptr()); let p = self.vres("get_export", r, None); let done7 = matches!(self.ctxs[ci].ex, Ex::Completed(7)); if !p.is_null() && *v == 0 && done7 { let x = self.render(p); if x != "n:41" { self.bad(format!("export ex1 reads {}", x)); } } self.adopt(p, ci, None, "export", None); } }
            Act::ExportNames => { if ci.is_some() { let mut n: usize = 0; let ks = tsrun_get_export_names(c, &mut n); if !ks.is_null() { for x in 0..n { let mut pr = vec![]; check_cstr(*ks.add(x), "export_names", &mut pr); for y in pr { self.bad(y); } } tsrun_free_strings(ks, n); } else if n != 0 { self.bad("export_names NULL with non-zero count".into()); } } }
            Act::GcStats => { if ci.is_some() { let s = tsrun_gc_stats(c); if s.live_objects > s.total_objects || s.pooled_objects > s.total_objects { self.bad(format!("gc_stats inconsistent: total {} pooled {} live {}", s.total_objects, s.pooled_objects, s.live_objects)); } } }
            Act::ForceGc => { tsrun::gc::verif::arm_collect_at(vec![tsrun::gc::verif::alloc_ordinal() + 1]); if ci.is_some() { let r = tsrun_object_new(c); if !r.value.is_null() { tsrun_value_free(r.value); } } }
            Act::Module => { if ci.is_some() { let m = tsrun_internal_module_new(c"host:late".as_ptr()); if !m.is_null() { tsrun_internal_module_add_function(m, c"f".as_ptr(), Some(native_cb), 0, 4 as *mut c_void); let r = tsrun_register_internal_module(c, m); self.res_ok("register_internal_module", r, None); } } }
            Act::NewCtx => { let p = tsrun_new(); if p.is_null() { self.bad("tsrun_new returned NULL".into()); } else { self.ctxs.push(Ctx { p, alive: true, ex: Ex::Idle, steps: 0, inflight: vec![] }); } }
            Act::FreeCtx(_) => { if let Some(ci) = ci { tsrun_free(c); self.ctxs[ci].alive = false; self.promise = None; } }
        }
        let st = tsrun::gc::verif::stale().0; if st != 0 { self.bad(format!("stale-handle events: {} (a recycled object was reached through an old handle)", st)); tsrun::gc::verif::reset(); }
    }

    /// every exported function with NULL in each pointer position, one at a time: must return an error / neutral value and leave everything alone
    unsafe fn null_sweep(&mut self) {
        let c = match self.c0() { Some(c) => c, None => return };
        let n: *mut TsRunValue = ptr::null_mut(); let nc: *mut TsRunContext = ptr::null_mut(); let k = cs("a");
        let live = self.pick(K::Obj, 0, true).or(self.pick(K::Num, 0, true)).map(|i| self.vals[i].p).unwrap_or(n);
        macro_rules! must_err_r { ($w:expr, $e:expr) => { let r: TsRunResult = $e; if r.ok { self.bad(format!("{} with a NULL argument reported success", $w)); } else if r.error.is_null() { self.bad(format!("{} with a NULL argument failed without a message", $w)); } else { let mut p = vec![]; check_cstr(r.error, $w, &mut p); for x in p { self.bad(x); } } } }
        macro_rules! must_err_v { ($w:expr, $e:expr) => { let r: TsRunValueResult = $e; if !r.value.is_null() { self.bad(format!("{} with a NULL argument returned a value", $w)); tsrun_value_free(r.value); } else if r.error.is_null() { self.bad(format!("{} with a NULL argument failed without a message", $w)); } else { let mut p = vec![]; check_cstr(r.error, $w, &mut p); for x in p { self.bad(x); } } } }
        must_err_r!("prepare(NULL ctx)", tsrun_prepare(nc, k.as_ptr(), ptr::null()));
        must_err_r!("prepare(NULL code)", tsrun_prepare(c, ptr::null(), ptr::null()));
        must_err_r!("provide_module(NULL ctx)", tsrun_provide_module(nc, k.as_ptr(), k.as_ptr()));
        must_err_r!("provide_module(NULL path)", tsrun_provide_module(c, ptr::null(), k.as_ptr()));
        must_err_r!("provide_module(NULL code)", tsrun_provide_module(c, k.as_ptr(), ptr::null()));
        must_err_r!("fulfill_orders(NULL ctx)", tsrun_fulfill_orders(nc, ptr::null(), 0));
        must_err_r!("fulfill_orders(NULL array, count 2)", tsrun_fulfill_orders(c, ptr::null(), 2));
        must_err_r!("set_console(NULL ctx)", tsrun_set_console(nc, None, ptr::null_mut()));
        must_err_v!("json_parse(NULL ctx)", tsrun_json_parse(nc, k.as_ptr()));
        must_err_v!("json_parse(NULL text)", tsrun_json_parse(c, ptr::null()));
        must_err_v!("object_new(NULL ctx)", tsrun_object_new(nc));
        must_err_v!("array_new(NULL ctx)", tsrun_array_new(nc));
        must_err_v!("get(NULL ctx)", tsrun_get(nc, live, k.as_ptr()));
        must_err_v!("get(NULL obj)", tsrun_get(c, n, k.as_ptr()));
        must_err_v!("get(NULL key)", tsrun_get(c, live, ptr::null()));
        must_err_r!("set(NULL ctx)", tsrun_set(nc, live, k.as_ptr(), live));
        must_err_r!("set(NULL obj)", tsrun_set(c, n, k.as_ptr(), live));
        must_err_r!("set(NULL key)", tsrun_set(c, live, ptr::null(), live));
        must_err_r!("delete(NULL obj)", tsrun_delete(c, n, k.as_ptr()));
        must_err_r!("delete(NULL key)", tsrun_delete(c, live, ptr::null()));
        if tsrun_has(c, n, k.as_ptr()) || tsrun_has(nc, live, k.as_ptr()) || tsrun_has(c, live, ptr::null()) { self.bad("has with a NULL argument returned true".into()); }
        let mut cnt: usize = 77; let ks = tsrun_keys(c, n, &mut cnt); if !ks.is_null() { self.bad("keys(NULL obj) returned an array".into()); tsrun_free_strings(ks, cnt); }
        let ks = tsrun_keys(nc, live, &mut cnt); if !ks.is_null() { self.bad("keys(NULL ctx) returned an array".into()); tsrun_free_strings(ks, cnt); }
        let ks = tsrun_keys(c, live, ptr::null_mut()); if !ks.is_null() { tsrun_free_strings(ks, 0); }
        if tsrun_array_len(n) != 0 { self.bad("array_len(NULL) != 0".into()); }
        must_err_v!("array_get(NULL arr)", tsrun_array_get(c, n, 0));
        must_err_r!("array_set(NULL arr)", tsrun_array_set(c, n, 0, live));
        must_err_r!("array_push(NULL arr)", tsrun_array_push(c, n, live));
        must_err_v!("call(NULL func)", tsrun_call(c, n, n, ptr::null_mut(), 0));
        must_err_v!("call(NULL ctx)", tsrun_call(nc, live, n, ptr::null_mut(), 0));
        must_err_v!("call_method(NULL obj)", tsrun_call_method(c, n, k.as_ptr(), ptr::null_mut(), 0));
        must_err_v!("call_method(NULL name)", tsrun_call_method(c, live, ptr::null(), ptr::null_mut(), 0));
        must_err_v!("get_global(NULL ctx)", tsrun_get_global(nc, k.as_ptr()));
        must_err_v!("get_global(NULL name)", tsrun_get_global(c, ptr::null()));
        must_err_r!("set_global(NULL name)", tsrun_set_global(c, ptr::null(), live));
        must_err_r!("set_global(NULL ctx)", tsrun_set_global(nc, k.as_ptr(), live));
        must_err_v!("get_export(NULL ctx)", tsrun_get_export(nc, k.as_ptr()));
        must_err_v!("get_export(NULL name)", tsrun_get_export(c, ptr::null()));
        must_err_v!("native_function(NULL ctx)", tsrun_native_function(nc, k.as_ptr(), Some(native_cb), 0, ptr::null_mut()));
        { // a function object without a callback may be refused or created; if created, calling it must be harmless
            let r = tsrun_native_function(c, k.as_ptr(), None, 0, ptr::null_mut());
            if !r.value.is_null() { let q = tsrun_call(c, r.value, n, ptr::null_mut(), 0); if !q.value.is_null() { tsrun_value_free(q.value); } tsrun_value_free(r.value); } }
        must_err_v!("create_order_promise(NULL ctx)", tsrun_create_order_promise(nc, 1));
        must_err_v!("create_pending_order(NULL ctx)", tsrun_create_pending_order(nc, n, ptr::null_mut()));
        must_err_r!("resolve_promise(NULL promise)", tsrun_resolve_promise(c, n, live));
        must_err_r!("reject_promise(NULL promise)", tsrun_reject_promise(c, n, k.as_ptr()));
        must_err_r!("register_internal_module(NULL module)", tsrun_register_internal_module(c, ptr::null_mut()));
        let s = tsrun_json_stringify(c, n); if !s.is_null() { tsrun_free_string(s); }
        let s = tsrun_json_stringify(nc, live); if !s.is_null() { self.bad("json_stringify(NULL ctx) returned a string".into()); tsrun_free_string(s); }
        for p in [tsrun_undefined(nc), tsrun_null(nc), tsrun_boolean(nc, true), tsrun_number(nc, 1.0), tsrun_string(nc, k.as_ptr()), tsrun_string(c, ptr::null()), tsrun_string_len(c, ptr::null(), 3), tsrun_value_dup(nc, live), tsrun_value_dup(c, n)] { if !p.is_null() { tsrun_value_free(p); } }
        let _ = (tsrun_typeof(n), tsrun_is_undefined(n), tsrun_is_null(n), tsrun_is_nullish(n), tsrun_is_boolean(n), tsrun_is_number(n), tsrun_is_string(n), tsrun_is_object(n), tsrun_is_array(n), tsrun_is_function(n), tsrun_get_bool(n), tsrun_get_number(n), tsrun_get_string_len(n));
        if !tsrun_get_string(n).is_null() { self.bad("get_string(NULL) returned a pointer".into()); }
        tsrun_value_free(n); tsrun_free(nc); tsrun_free_string(ptr::null_mut()); tsrun_free_strings(ptr::null_mut(), 0); tsrun_step_result_free(ptr::null_mut());
        let mut sr = tsrun_step(nc); if sr.status != STEP_ERROR && sr.status != STEP_DONE { self.bad(format!("step(NULL ctx) returned status {}", sr.status)); } tsrun_step_result_free(&mut sr);
        let mut sr = tsrun_run(nc); if sr.status != STEP_ERROR && sr.status != STEP_DONE { self.bad(format!("run(NULL ctx) returned status {}", sr.status)); } tsrun_step_result_free(&mut sr);
        let st = tsrun_gc_stats(nc); let _ = st.total_objects;
        tsrun_internal_module_add_function(ptr::null_mut(), k.as_ptr(), Some(native_cb), 0, ptr::null_mut()); tsrun_internal_module_add_value(ptr::null_mut(), k.as_ptr(), live);
        let m = tsrun_internal_module_new(ptr::null()); if !m.is_null() { let r = tsrun_register_internal_module(c, m); let _ = r.ok; }
    }

    unsafe fn teardown(&mut self) {
        // release everything in the order "contexts first, then surviving values" on even histories, the reverse on odd ones
        let ctx_first = self.vals.len() % 2 == 0;
        if ctx_first { for c in self.ctxs.iter_mut() { if c.alive { tsrun_free(c.p); c.alive = false; } } }
        for v in self.vals.iter_mut() { if !v.freed && !v.borrowed { tsrun_value_free(v.p); v.freed = true; } }
        for c in self.ctxs.iter_mut() { if c.alive { tsrun_free(c.p); c.alive = false; } }
    }
}

fn run_history(init: u8, gcmode: u8, hist: &[Act], sweep: bool) -> (String, Vec<Act>, Vec<String>, Vec<String>) {
    unsafe {
        let mut w = World::new(gcmode);
        w.init(init);
        for a in hist { if !w.problems.is_empty() { break; } w.apply(a); }
        if sweep && w.problems.is_empty() { w.null_sweep(); }
        let key = w.key();
        let en = w.enabled(true);
        let probs = w.problems.clone();
        let trace = w.trace.clone();
        w.teardown();
        (key, en, probs, trace)
    }
}

fn hist_str(h: &[Act]) -> String { h.iter().map(act_str).collect::<Vec<_>>().join(";") }

pub fn main(args: &[String]) {
    let mode = args.first().map(|s| s.as_str()).unwrap_or("");
    if mode == "replay" {
        let init: u8 = args.get(1).and_then(|s| s.parse().ok()).unwrap_or(1);
        let gc: u8 = args.get(2).and_then(|s| s.parse().ok()).unwrap_or(0);
        let hist: Vec<Act> = args.get(3).map(|s| s.split(';').filter(|x| !x.is_empty()).filter_map(parse_act).collect()).unwrap_or_default();
        let (key, _, probs, trace) = run_history(init, gc, &hist, true);
        println!("{}", serde_json::json!({"key": key, "problems": probs, "trace": trace, "history": hist_str(&hist)}));
        return;
    }
    let depth: usize = args.get(1).and_then(|s| s.parse().ok()).unwrap_or(2);
    let shard: usize = args.get(2).and_then(|s| s.parse().ok()).unwrap_or(0);
    let nshards: usize = args.get(3).and_then(|s| s.parse().ok()).unwrap_or(1);
    let inits: Vec<u8> = args.get(4).map(|s| s.split(',').filter_map(|x| x.parse().ok()).collect()).unwrap_or(vec![1]);
    let gc: u8 = args.get(5).and_then(|s| s.parse().ok()).unwrap_or(0);
    let curfile = args.get(6).cloned();
    let cap: u64 = args.get(7).and_then(|s| s.parse().ok()).unwrap_or(u64::MAX);
    use std::io::Write;
    let mut cur = curfile.as_ref().and_then(|p| std::fs::OpenOptions::new().create(true).write(true).truncate(true).open(p).ok());
    let mut states = 0u64; let mut transitions = 0u64; let mut runs = 0u64; let mut violations: Vec<serde_json::Value> = vec![]; let mut maxdepth = 0usize; let mut capped = false;
    let mut by_depth: Vec<u64> = vec![0; depth + 1];
    for &init in &inits {
        let mut seen: HashSet<String> = HashSet::new();
        let mut frontier: VecDeque<Vec<Act>> = VecDeque::new();
        let (k0, en0, p0, _) = run_history(init, gc, &[], true); runs += 1;
        if !p0.is_empty() { violations.push(serde_json::json!({"init": init, "gc": gc, "history": "", "problems": p0})); continue; }
        seen.insert(k0); states += 1; by_depth[0] += 1;
        // shard on the first action
        for (i, a) in en0.iter().enumerate() { if i % nshards == shard { frontier.push_back(vec![a.clone()]); } }
        while let Some(h) = frontier.pop_front() {
            if runs >= cap { capped = true; break; }
            if let Some(f) = cur.as_mut() { use std::io::Seek; let _ = f.seek(std::io::SeekFrom::Start(0)); let line = format!("{}|{}|{}\n{:200}\n", init, gc, hist_str(&h), ""); let _ = f.write_all(line.as_bytes()); }
            let (key, en, probs, _) = run_history(init, gc, &h, true); runs += 1; transitions += 1;
            if !probs.is_empty() { if violations.len() < 200 { violations.push(serde_json::json!({"init": init, "gc": gc, "history": hist_str(&h), "problems": probs})); } continue; }
            if !seen.insert(key) { continue; }
            states += 1; by_depth[h.len()] += 1; if h.len() > maxdepth { maxdepth = h.len(); }
            if h.len() < depth { for a in en { let mut h2 = h.clone(); h2.push(a); frontier.push_back(h2); } }
        }
    }
    println!("{}", serde_json::json!({"states": states, "transitions": transitions, "runs": runs, "max_depth": maxdepth, "by_depth": by_depth, "violations": violations, "capped": capped, "shard": shard, "inits": inits, "gc": gc}));
}
