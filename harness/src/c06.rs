//! C06: host-control driver. The host steps the program, counts steps, checks call_depth() between
//! steps (exactly what --timeout/--max-depth do) and measures, through the H3 hook, how many VM
//! instructions each single step() executes. A step that exceeds `step_vm_budget` instructions is
//! reported as `step-unbounded` (the hook panics with a recognisable payload, caught here).
//! Case: {id, src, step_budget, depth_limit, step_vm_budget}
use crate::common::*;
use std::io::{BufRead, Write};
use tsrun::StepResult;

fn case(v: &serde_json::Value) -> serde_json::Value {
    let src = v.get("src").and_then(|x| x.as_str()).unwrap_or("").to_string();
    let step_budget = v.get("step_budget").and_then(|x| x.as_u64()).unwrap_or(300_000);
    let depth_limit = v.get("depth_limit").and_then(|x| x.as_u64()).unwrap_or(1000) as usize;
    let step_vm_budget = v.get("step_vm_budget").and_then(|x| x.as_u64()).unwrap_or(1_000_000);
    let progress = std::rc::Rc::new(std::cell::Cell::new((0u64, 0u64, 0usize)));
    let pr = progress.clone();
    tsrun::verif_hooks::reset(0, 0);
    let r = std::panic::catch_unwind(std::panic::AssertUnwindSafe(move || {
        let (mut i, log) = new_interp();
        let mut r = i.prepare(&src, None);
        let mut n = 0u64;
        let mut max_work = 0u64;
        let mut max_depth = 0usize;
        loop {
            match r {
                Ok(StepResult::Continue) => {
                    n += 1;
                    let d = i.call_depth();
                    if d > max_depth { max_depth = d; }
                    pr.set((n, max_work, max_depth));
                    if d > depth_limit {
                        return serde_json::json!({"status": "host-stopped-depth", "steps": n, "max_step_work": max_work, "max_depth": max_depth, "nested_max": tsrun::verif_hooks::nested_max()});
                    }
                    if n > step_budget {
                        return serde_json::json!({"status": "host-stopped-steps", "steps": n, "max_step_work": max_work, "max_depth": max_depth, "nested_max": tsrun::verif_hooks::nested_max()});
                    }
                    tsrun::verif_hooks::reset(0, step_vm_budget);
                    r = i.step();
                    let w = tsrun::verif_hooks::vm_steps();
                    if w > max_work { max_work = w; }
                }
                Ok(StepResult::Complete(val)) => return serde_json::json!({"status": "ok", "value": show(val.value()), "steps": n, "max_step_work": max_work, "max_depth": max_depth, "log": log.borrow().clone()}),
                Ok(StepResult::Suspended { .. }) => return serde_json::json!({"status": "stuck", "steps": n, "max_step_work": max_work}),
                Ok(StepResult::NeedImports(_)) => return serde_json::json!({"status": "need"}),
                Ok(StepResult::Done) => return serde_json::json!({"status": "done"}),
                Err(e) => return serde_json::json!({"status": "err", "err": errclass(&e), "msg": errmsg(&e), "steps": n, "max_step_work": max_work, "max_depth": max_depth}),
            }
        }
    }));
    let (n, w, d) = progress.get();
    let out = match r {
        Ok(j) => j,
        Err(p) => {
            let msg = if let Some(s) = p.downcast_ref::<&str>() { s.to_string() } else if let Some(s) = p.downcast_ref::<String>() { s.clone() } else { "?".into() };
            if msg.contains("TSRUN_VERIF_VM_BUDGET") {
                serde_json::json!({"status": "step-unbounded", "steps": n, "max_step_work": w, "max_depth": d, "msg": format!("step {} executed more than {} VM instructions without returning to the host", n, step_vm_budget)})
            } else {
                serde_json::json!({"status": "panic", "steps": n, "msg": msg.chars().take(300).collect::<String>()})
            }
        }
    };
    tsrun::verif_hooks::reset(0, 0);
    out
}

pub fn main(_args: &[String]) {
    let stdin = std::io::stdin(); let stdout = std::io::stdout(); let mut out = stdout.lock();
    for line in stdin.lock().lines() {
        let Ok(line) = line else { break }; if line.trim().is_empty() { continue; }
        let v: serde_json::Value = match serde_json::from_str(&line) { Ok(v) => v, Err(_) => continue };
        let id = v.get("id").cloned().unwrap_or(serde_json::Value::Null);
        let _ = writeln!(out, "BEGIN {}", id); let _ = out.flush();
        let mut j = case(&v); j["id"] = id;
        let _ = writeln!(out, "{}", j); let _ = out.flush();
    }
}
