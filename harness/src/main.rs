//! tvh — the tsrun verification harness. One binary, one subcommand per engine.
mod common;
mod run;
mod iso;
mod modx;
mod orders;
mod reuse;
mod c05;
mod c13;
mod c15;
mod c16;
mod c18;
mod c19;
mod c20;
mod c06;
mod c17;
mod capi;

fn main() {
    // Silence the default panic printer: panics are observations here, reported as data.
    std::panic::set_hook(Box::new(|_| {}));
    let args: Vec<String> = std::env::args().collect();
    let sub = args.get(1).map(|s| s.as_str()).unwrap_or("");
    let rest: Vec<String> = args.iter().skip(2).cloned().collect();
    // Big stack for the engine thread is NOT used for case bodies that test stack depth; those
    // subcommands run on the main thread with the ordinary 8 MiB stack.
    match sub {
        "run" => run::main(&rest),
        "gcsched" => run::gcsched_main(&rest),
        "leak" => run::leak_main(&rest),
        "reuse" => reuse::main(&rest),
        "orders" => orders::main(&rest),
        "modx" => modx::main(&rest),
        "iso" => iso::main(&rest),
        "c05" => c05::main(&rest),
        "c13" => c13::main(&rest),
        "c15" => c15::main(&rest),
        "c16" => c16::main(&rest),
        "c18" => c18::main(&rest),
        "c19" => c19::main(&rest),
        "c20" => c20::main(&rest),
        "c06" => c06::main(&rest),
        "c17" => c17::main(&rest),
        "c18one" => {
            let spec = rest.first().cloned().unwrap_or_default();
            let imp = rest.get(1).cloned().unwrap_or_default();
            let base = if imp == "\0none" { None } else { Some(tsrun::ModulePath::new(imp)) };
            println!("{}", serde_json::json!({"got": tsrun::ModulePath::resolve(&spec, base.as_ref()).as_str()}));
        }
        _ => {
            eprintln!("usage: tvh <run|...> [args]");
            std::process::exit(2);
        }
    }
}
