//! C07 / C08 — explicit-state exploration of the order protocol against the real interpreter.
//! A state is the history of host actions reaching it (re-materialised by replay on a fresh interpreter);
//! state key = (ledger model, last step result, console log). Every transition calls the real
//! step()/fulfill_orders()/resolve_promise()/reject_promise().
//! Input JSONL: {id, src, depth, gc?, twin?, order_dependent?, payloads:[..], allowed_final?:[..], max_states?}
use crate::common::*;
use std::collections::{BTreeMap, BTreeSet, HashMap, HashSet, VecDeque};
use std::io::{BufRead, Write};
use tsrun::{api, Interpreter, JsError, JsValue, OrderId, OrderResponse, RuntimeValue, StepResult};

#[derive(Clone, Copy, Debug, PartialEq, Eq, Hash, PartialOrd, Ord)]
pub enum Act { Val(u64), Err(u64), Defer(u64), Resolve(u64), Reject(u64), AllVal, Unknown, Dup(u64), Spurious, Spurious2 }

struct World { strict_complete: bool, i: Interpreter, log: Log, issued: Vec<(u64, String)>, answered: BTreeMap<u64, String>, cancelled: Vec<u64>, promises: Vec<(u64, RuntimeValue)>,
    /// host promises already settled: a careful host keeps its handle until the run is over (the answer that
    /// carried the promise may not have been consumed yet)
    keep: Vec<RuntimeValue>,
    settled: BTreeMap<u64, String>, last: String, done: bool, viol: Vec<String>, gc: bool }

pub fn err_text(p: &str) -> String { JsError::type_error(format!("e:{}", p)).to_string() }

fn payload_of(w: &World, id: u64) -> String { w.issued.iter().find(|(i, _)| *i == id).map(|(_, p)| p.clone()).unwrap_or_default() }

fn run_until_block(w: &mut World) {
    let mut n = 0u64;
    loop {
        n += 1;
        if n > 200_000 { w.last = "BUDGET".into(); w.done = true; w.viol.push("I4: no progress within the step budget".into()); return; }
        match w.i.step() {
            Ok(StepResult::Continue) => continue,
            Ok(StepResult::Suspended { pending, cancelled }) => {
                for o in &pending {
                    let id = o.id.0;
                    if w.issued.iter().any(|(i, _)| *i == id) { w.viol.push(format!("I1: order {} reported twice", id)); }
                    if let Some(mx) = w.issued.iter().map(|(i, _)| *i).max() { if id <= mx { w.viol.push(format!("I1: order id {} is not fresh (max so far {})", id, mx)); } }
                    w.issued.push((id, show(o.payload.value())));
                }
                for c in &cancelled {
                    if !w.issued.iter().any(|(i, _)| *i == c.0) { w.viol.push(format!("I2: cancellation of an order that was never reported ({})", c.0)); }
                    if w.cancelled.contains(&c.0) { w.viol.push(format!("I2: order {} cancelled twice", c.0)); }
                    // an order whose answer the program already received as a value cannot be given up any more
                    let fulfilled = matches!(w.answered.get(&c.0).map(|s| s.as_str()), Some("val")) || (w.answered.get(&c.0).map(|s| s.as_str()) == Some("defer") && w.settled.get(&c.0).map(|s| s.as_str()) == Some("val"));
                    if fulfilled { w.viol.push(format!("I2: order {} reported as cancelled after the host had fulfilled it", c.0)); }
                    w.cancelled.push(c.0);
                }
                w.last = "S".into(); // the pending list itself is reported once and is part of the ledger, not of the state
                let outstanding = w.issued.iter().any(|(i, _)| !w.answered.contains_key(i) && !w.cancelled.contains(i)) || !w.promises.is_empty();
                if !outstanding { w.viol.push("I3: Suspended although every order is answered and every host promise settled (nothing the host can do)".into()); w.done = true; }
                return;
            }
            Ok(StepResult::Complete(v)) => {
                w.last = format!("C({})", show(v.value())); w.done = true;
                if w.issued.iter().any(|(i, _)| !w.answered.contains_key(i) && !w.cancelled.contains(i)) { w.viol.push("I5: Complete although an order is still unanswered".into()); }
                if w.strict_complete && !w.promises.is_empty() { w.viol.push("I5: Complete although a host promise the program awaits (through a combinator) is still unsettled".into()); }
                return;
            }
            Ok(StepResult::NeedImports(_)) => { w.last = "NeedImports".into(); w.done = true; return; }
            Ok(StepResult::Done) => { w.last = "Done".into(); w.done = true; return; }
            Err(_) => { w.last = "E".into(); w.done = true; return; } // uncaught: class/rendering of thrown values differs by delivery path, only the fact is compared
        }
    }
}

fn start(src: &str, gc: bool, strict: bool) -> World {
    let (mut i, log) = new_interp();
    if gc { i.set_gc_threshold(1); }
    let mut w = World { strict_complete: strict, i, log, issued: vec![], answered: BTreeMap::new(), cancelled: vec![], promises: vec![], keep: vec![], settled: BTreeMap::new(), last: String::new(), done: false, viol: vec![], gc };
    match w.i.prepare(&format!("import {{ order, __cancelOrder__ }} from 'tsrun:host';\n{}", src), None) { Ok(_) => run_until_block(&mut w), Err(e) => { w.last = format!("PE({})", errclass(&e)); w.done = true; } }
    w
}

fn enabled(w: &World) -> Vec<Act> {
    if w.done { return vec![]; }
    let mut v = vec![];
    let un: Vec<u64> = w.issued.iter().map(|(i, _)| *i).filter(|i| !w.answered.contains_key(i)).collect();
    for &i in &un { v.push(Act::Val(i)); v.push(Act::Err(i)); v.push(Act::Defer(i)); }
    if un.len() > 1 { v.push(Act::AllVal); }
    for (id, _) in &w.promises { v.push(Act::Resolve(*id)); v.push(Act::Reject(*id)); }
    if let Some((&a, _)) = w.answered.iter().next() { v.push(Act::Dup(a)); }
    v.push(Act::Unknown); v.push(Act::Spurious); v.push(Act::Spurious2);
    v
}

fn apply(w: &mut World, a: Act) {
    if w.gc { w.i.collect(); }
    let sval = |p: &str| RuntimeValue::unguarded(JsValue::from(format!("v:{}", p)));
    match a {
        Act::Val(id) => { let p = payload_of(w, id); w.i.fulfill_orders(vec![OrderResponse { id: OrderId(id), result: Ok(sval(&p)) }]); w.answered.insert(id, "val".into()); }
        Act::AllVal => { let un: Vec<u64> = w.issued.iter().map(|(i, _)| *i).filter(|i| !w.answered.contains_key(i)).collect();
            let resp = un.iter().map(|&id| OrderResponse { id: OrderId(id), result: Ok(sval(&payload_of(w, id))) }).collect(); w.i.fulfill_orders(resp); for id in un { w.answered.insert(id, "val".into()); } }
        Act::Err(id) => { let p = payload_of(w, id); w.i.fulfill_orders(vec![OrderResponse { id: OrderId(id), result: Err(JsError::type_error(format!("e:{}", p))) }]); w.answered.insert(id, "err".into()); }
        Act::Defer(id) => { let p = api::create_order_promise(&mut w.i, OrderId(id)); let pv = RuntimeValue::unguarded(p.value().clone()); w.promises.push((id, p));
            w.i.fulfill_orders(vec![OrderResponse { id: OrderId(id), result: Ok(pv) }]); w.answered.insert(id, "defer".into()); }
        Act::Resolve(id) => { if let Some(k) = w.promises.iter().position(|(i, _)| *i == id) { let (_, p) = w.promises.remove(k); let pl = payload_of(w, id); let _ = api::resolve_promise(&mut w.i, &p, sval(&pl)); w.settled.insert(id, "val".into()); w.keep.push(p); } }
        Act::Reject(id) => { if let Some(k) = w.promises.iter().position(|(i, _)| *i == id) { let (_, p) = w.promises.remove(k); let pl = payload_of(w, id);
            let _ = api::reject_promise(&mut w.i, &p, RuntimeValue::unguarded(JsValue::from(err_text(&pl)))); w.settled.insert(id, "err".into()); w.keep.push(p); } }
        Act::Unknown => { w.i.fulfill_orders(vec![OrderResponse { id: OrderId(987_654), result: Ok(RuntimeValue::unguarded(JsValue::from("UNKNOWN"))) }]); }
        Act::Dup(id) => { w.i.fulfill_orders(vec![OrderResponse { id: OrderId(id), result: Ok(RuntimeValue::unguarded(JsValue::from("DUPLICATE"))) }]); }
        Act::Spurious => {}
        Act::Spurious2 => { run_until_block(w); if w.done { return; } }
    }
    run_until_block(w);
}

fn key(w: &World) -> String { format!("{:?}|{:?}|{:?}|{:?}|{:?}|{}|{:?}", w.issued, w.answered, w.cancelled, w.promises.iter().map(|p| p.0).collect::<Vec<_>>(), w.settled, w.last, w.log.borrow()) }
fn replay(src: &str, gc: bool, strict: bool, h: &[Act]) -> World { let mut w = start(src, gc, strict); for &a in h { if w.done { break; } apply(&mut w, a); } w }

/// The answer each order (by payload) finally received: "val" | "err"
fn assignment(w: &World) -> BTreeMap<String, String> {
    let mut m = BTreeMap::new();
    for (id, p) in &w.issued { let a = match w.answered.get(id).map(|s| s.as_str()) { Some("defer") => match w.settled.get(id).map(|s| s.as_str()) { Some("val") => "resolve".into(), Some("err") => "reject".into(), _ => "pending".to_string() }, Some(x) => x.to_string(), None => "none".into() }; m.insert(p.clone(), a); }
    m
}

fn twin_outcome(src: &str, assign: &BTreeMap<String, String>) -> String {
    // in-program stub: same answers, delivered without any suspension
    let mut ans = String::from("{");
    for (p, a) in assign { let k = p.strip_prefix("s:").unwrap_or(p); ans.push_str(&format!("{}:{},", serde_json::to_string(k).unwrap_or_default(), serde_json::to_string(a).unwrap_or_default())); }
    ans.push('}');
    let stub = format!("const __ANS = {}; function order(p) {{ const a = __ANS[p]; const e = {}.replace('PAYLOAD', p); if (a === 'err') throw e; if (a === 'reject') return Promise.reject(e); if (a === 'resolve') return Promise.resolve('v:s:' + p); return 'v:s:' + p; }} function __cancelOrder__() {{}}\n", ans, serde_json::to_string(&err_text("s:PAYLOAD")).unwrap_or_default());
    let (mut i, log) = new_interp();
    let first = i.prepare(&format!("{}{}", stub, src), None);
    let p = Policy { budget: 200_000, answer_orders: false, ..Default::default() };
    let o = drive(&mut i, &log, first, &p);
    // same rendering as a terminal state of the suspending run: "<last>|<log>"
    match o.status.as_str() { "ok" => format!("C({})|{:?}", o.value, o.log), "err" => format!("E|{:?}", o.log), other => format!("?{}|{:?}", other, o.log) }
}

pub fn case(v: &serde_json::Value) -> serde_json::Value {
    let src = v.get("src").and_then(|x| x.as_str()).unwrap_or("").to_string();
    let depth = v.get("depth").and_then(|x| x.as_u64()).unwrap_or(6) as usize;
    let gc = v.get("gc").and_then(|x| x.as_bool()).unwrap_or(false);
    let twin = v.get("twin").and_then(|x| x.as_bool()).unwrap_or(false);
    let order_dep = v.get("order_dependent").and_then(|x| x.as_bool()).unwrap_or(false);
    let max_states = v.get("max_states").and_then(|x| x.as_u64()).unwrap_or(200_000);
    let allowed: Option<Vec<String>> = v.get("payloads").and_then(|x| x.as_array()).map(|a| a.iter().filter_map(|s| s.as_str().map(|t| t.to_string())).collect());
    let mut seen: HashSet<String> = HashSet::new(); let mut q: VecDeque<Vec<Act>> = VecDeque::new();
    let strict = v.get("complete_requires_settled").and_then(|x| x.as_bool()).unwrap_or(false);
    let w0 = start(&src, gc, strict); seen.insert(key(&w0)); q.push_back(vec![]);
    let mut trans = 0u64; let mut replays = 1u64; let mut viol: Vec<serde_json::Value> = vec![]; let mut nviol = 0u64; let mut maxd = 0usize; let mut capped = false;
    let mut finals: HashMap<BTreeMap<String, String>, BTreeSet<String>> = HashMap::new(); let mut final_hist: HashMap<String, Vec<Act>> = HashMap::new();
    let mut terminal = 0u64; let mut unfinished = 0u64;
    let mut record = |viol: &mut Vec<serde_json::Value>, nviol: &mut u64, h: &[Act], what: String| { *nviol += 1; if viol.len() < 8 && !viol.iter().any(|x| x["what"] == what.as_str()) { viol.push(serde_json::json!({"history": h.iter().map(|a| format!("{:?}", a)).collect::<Vec<_>>(), "what": what})); } };
    for x in &w0.viol { record(&mut viol, &mut nviol, &[], x.clone()); }
    let check_payloads = |w: &World| -> Option<String> { if let Some(al) = &allowed { let mut budget: HashMap<&str, i64> = HashMap::new(); for a in al { *budget.entry(a.as_str()).or_insert(0) += 1; }
        for (_, p) in &w.issued { let e = budget.entry(p.as_str()).or_insert(0); *e -= 1; if *e < 0 { return Some(format!("I1: payload {} reported more often than the program issues it (or altered)", p)); } } } None };
    while let Some(h) = q.pop_front() {
        let w = replay(&src, gc, strict, &h); replays += 1;
        if w.done { terminal += 1; let fin = format!("{}|{:?}", w.last, w.log.borrow()); finals.entry(assignment(&w)).or_default().insert(fin.clone()); final_hist.entry(fin).or_insert(h.clone()); continue; }
        if h.len() >= depth { unfinished += 1; continue; }
        let kw = key(&w);
        for a in enabled(&w) {
            let mut h2 = h.clone(); h2.push(a); trans += 1;
            let w2 = replay(&src, gc, strict, &h2); replays += 1;
            // violating edge: only report what this last action newly exposed
            for x in &w2.viol { if !w.viol.contains(x) { record(&mut viol, &mut nviol, &h2, x.clone()); } }
            if let Some(x) = check_payloads(&w2) { record(&mut viol, &mut nviol, &h2, x); }
            let k2 = key(&w2);
            if matches!(a, Act::Spurious | Act::Spurious2 | Act::Unknown | Act::Dup(_)) && k2 != kw {
                record(&mut viol, &mut nviol, &h2, format!("a host action that carries no new information ({:?}) changed the state: {} -> {}", a, w.last, w2.last));
            }
            if tsrun::gc::verif::stale().0 != 0 { record(&mut viol, &mut nviol, &h2, "stale-handle dereference (collection between host actions)".into()); tsrun::gc::verif::reset(); }
            if seen.insert(k2) { maxd = maxd.max(h2.len()); q.push_back(h2); }
        }
        if seen.len() as u64 > max_states { capped = true; break; }
    }
    // schedule independence + twin equality
    let mut nontrivial = 0usize;
    for (assign, outs) in &finals {
        nontrivial += outs.len();
        if assign.values().any(|a| a == "none" || a == "pending") { continue; }
        if !order_dep && outs.len() > 1 {
            let mut it = outs.iter(); let a = it.next().cloned().unwrap_or_default(); let b = it.next().cloned().unwrap_or_default();
            record(&mut viol, &mut nviol, final_hist.get(&b).map(|v| v.as_slice()).unwrap_or(&[]), format!("outcome depends on the host schedule although every order received the same answer {:?}: {} vs {}", assign, a, b));
        }
        if twin && !order_dep {
            let t = twin_outcome(&src, assign);
            for o in outs {
                let expect = t.clone();
                if *o != expect { record(&mut viol, &mut nviol, final_hist.get(o).map(|v| v.as_slice()).unwrap_or(&[]), format!("suspending run ends with {} but the same program with a synchronous in-program order() stub ends with {} (answers {:?})", o, expect, assign)); }
            }
        }
    }
    if let Some(al) = v.get("allowed_final").and_then(|x| x.as_array()) {
        let al: Vec<String> = al.iter().filter_map(|s| s.as_str().map(|t| t.to_string())).collect();
        for (assign, outs) in &finals { if assign.values().any(|a| a == "none" || a == "pending") { continue; } for o in outs { if !al.iter().any(|a| o.starts_with(a.as_str())) { record(&mut viol, &mut nviol, final_hist.get(o).map(|v| v.as_slice()).unwrap_or(&[]), format!("final outcome {} is not one the language semantics allows for this program ({:?})", o, al)); } } }
    }
    serde_json::json!({"status": "ok", "states": seen.len(), "transitions": trans, "replays": replays, "max_depth": maxd, "terminal_states": terminal, "cut_at_depth": unfinished, "capped": capped,
        "violations": viol, "nviol": nviol, "distinct_outcomes": nontrivial, "assignments": finals.len()})
}

pub fn main(_args: &[String]) {
    let stdin = std::io::stdin(); let stdout = std::io::stdout(); let mut out = stdout.lock();
    for line in stdin.lock().lines() {
        let Ok(line) = line else { break }; if line.trim().is_empty() { continue; }
        let v: serde_json::Value = match serde_json::from_str(&line) { Ok(v) => v, Err(_) => continue };
        let id = v.get("id").cloned().unwrap_or(serde_json::Value::Null);
        let _ = writeln!(out, "BEGIN {}", id); let _ = out.flush();
        tsrun::gc::verif::reset();
        let mut j = match std::panic::catch_unwind(|| case(&v)) { Ok(j) => j, Err(_) => serde_json::json!({"status": "panic"}) }; j["id"] = id;
        let _ = writeln!(out, "{}", j); let _ = out.flush();
    }
}
