//! C15 — direct entry points: one request per stdin line, one answer per stdout line.
//!   n <hex bits>   -> number_to_string(f64::from_bits)
//!   s <text>       -> hex bits of string_to_number(text)
use std::io::{BufRead, Write};
pub fn main(_args: &[String]) {
    let stdin = std::io::stdin();
    let stdout = std::io::stdout();
    let mut out = std::io::BufWriter::new(stdout.lock());
    for line in stdin.lock().lines() {
        let Ok(line) = line else { break };
        if let Some(h) = line.strip_prefix("n ") {
            let bits = u64::from_str_radix(h.trim(), 16).unwrap_or(0);
            let r = std::panic::catch_unwind(|| tsrun::value::number_to_string(f64::from_bits(bits)));
            let _ = writeln!(out, "{}", r.unwrap_or_else(|_| "<panic>".into()));
        } else if let Some(t) = line.strip_prefix("s ") {
            let t2 = t.to_string();
            let r = std::panic::catch_unwind(move || tsrun::value::string_to_number(&t2).to_bits());
            match r { Ok(b) => { let _ = writeln!(out, "{:016x}", b); } Err(_) => { let _ = writeln!(out, "<panic>"); } }
        } else {
            let _ = writeln!(out, "?");
        }
    }
}
