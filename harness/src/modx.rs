//! C09 — explicit-state exploration of module supply schedules against the real interpreter.
//! Input JSONL: {id, main:{path,src}, modules:[[path,src]], deps:{path:[path..]}, mode:"subsets"|"single", max_states?}
//! State = history of host actions (replayed on a fresh interpreter); key = (supplied set, last result, log).
//! Host actions at a NeedImports state: supply any non-empty subset of the not-yet-supplied modules
//! (requested or not), re-supply an already supplied module, or step without supplying anything.
use crate::common::*;
use std::collections::{BTreeSet, HashMap, HashSet, VecDeque};
use std::io::{BufRead, Write};
use tsrun::{api, Interpreter, ModulePath, StepResult};

#[derive(Clone, Debug, PartialEq, Eq, Hash, PartialOrd, Ord)]
enum Act { Supply(Vec<usize>), Resupply(usize), StepOnly }

struct World { i: Interpreter, log: Log, supplied: BTreeSet<usize>, requested_ever: Vec<(String, String)>, last_req: Vec<usize>, last: String, done: bool, viol: Vec<String>, provide_errors: Vec<String> }

struct Graph { main_path: String, main_src: String, mods: Vec<(String, String)>, deps: HashMap<String, Vec<String>> }

fn run_until_block(w: &mut World, g: &Graph) {
    let mut n = 0u64;
    loop {
        n += 1; if n > 300_000 { w.last = "BUDGET".into(); w.done = true; w.viol.push("loading does not terminate within the step budget".into()); return; }
        match w.i.step() {
            Ok(StepResult::Continue) => continue,
            Ok(StepResult::NeedImports(reqs)) => {
                let mut idxs = vec![]; let mut seen_paths = HashSet::new();
                for q in &reqs {
                    let rp = q.resolved_path.as_str().to_string();
                    if !seen_paths.insert(rp.clone()) { w.viol.push(format!("import request names {} twice in one NeedImports", rp)); }
                    match g.mods.iter().position(|(p, _)| *p == rp) {
                        Some(k) => { if w.supplied.contains(&k) { w.viol.push(format!("import request for {} although it was already supplied", rp)); } idxs.push(k); }
                        None => { w.viol.push(format!("import request for {} which is not the canonical path of any module of the graph (specifier {})", rp, q.specifier)); }
                    }
                    // importer must be a module that really imports it
                    let imp = q.importer.as_ref().map(|p| p.as_str().to_string()).unwrap_or(g.main_path.clone());
                    let ok = g.deps.get(&imp).map(|d| d.contains(&rp)).unwrap_or(false);
                    if !ok { w.viol.push(format!("import request for {} names importer {} which does not import it", rp, imp)); }
                    w.requested_ever.push((rp, imp));
                }
                idxs.sort(); w.last_req = idxs.clone(); w.last = format!("Need{:?}", idxs); return;
            }
            Ok(StepResult::Complete(v)) => { w.last = format!("C({})", show(v.value())); w.done = true; return; }
            Ok(StepResult::Suspended { .. }) => { w.last = "Suspended".into(); w.done = true; w.viol.push("unexpected Suspended while loading modules".into()); return; }
            Ok(StepResult::Done) => { w.last = "Done".into(); w.done = true; return; }
            Err(e) => { w.last = format!("E({})", errclass(&e)); w.done = true; return; }
        }
    }
}

fn start(g: &Graph) -> World {
    let (i, log) = new_interp();
    let mut w = World { i, log, supplied: BTreeSet::new(), requested_ever: vec![], last_req: vec![], last: String::new(), done: false, viol: vec![], provide_errors: vec![] };
    match w.i.prepare(&g.main_src, Some(ModulePath::new(g.main_path.as_str()))) {
        Ok(StepResult::NeedImports(reqs)) => { // same bookkeeping as in run_until_block
            let mut idxs = vec![];
            for q in &reqs { let rp = q.resolved_path.as_str().to_string(); if let Some(k) = g.mods.iter().position(|(p, _)| *p == rp) { idxs.push(k); } else { w.viol.push(format!("import request for {} which is not the canonical path of any module of the graph (specifier {})", rp, q.specifier)); }
                let imp = q.importer.as_ref().map(|p| p.as_str().to_string()).unwrap_or(g.main_path.clone());
                if !g.deps.get(&imp).map(|d| d.contains(&rp)).unwrap_or(false) { w.viol.push(format!("import request for {} names importer {} which does not import it", rp, imp)); }
                w.requested_ever.push((rp, imp)); }
            idxs.sort(); w.last_req = idxs.clone(); w.last = format!("Need{:?}", idxs);
        }
        Ok(_) => run_until_block(&mut w, g),
        Err(e) => { w.last = format!("PE({})", errclass(&e)); w.done = true; }
    }
    w
}

fn apply(w: &mut World, g: &Graph, a: &Act) {
    match a {
        Act::Supply(ks) => { for &k in ks { let (p, s) = &g.mods[k]; if let Err(e) = w.i.provide_module(ModulePath::new(p.as_str()), s) { w.provide_errors.push(format!("{}:{}", p, errclass(&e))); } w.supplied.insert(k); } }
        Act::Resupply(k) => { let (p, s) = &g.mods[*k]; if let Err(e) = w.i.provide_module(ModulePath::new(p.as_str()), s) { w.provide_errors.push(format!("re:{}:{}", p, errclass(&e))); } }
        Act::StepOnly => {}
    }
    run_until_block(w, g);
}

fn enabled(w: &World, g: &Graph, mode: &str) -> Vec<Act> {
    if w.done { return vec![]; }
    let missing: Vec<usize> = (0..g.mods.len()).filter(|k| !w.supplied.contains(k)).collect();
    let mut v = vec![];
    if mode == "subsets" {
        for mask in 1u32..(1 << missing.len()) { v.push(Act::Supply(missing.iter().enumerate().filter(|(b, _)| mask & (1 << b) != 0).map(|(_, &k)| k).collect())); }
    } else {
        for &k in &missing { v.push(Act::Supply(vec![k])); }
        if missing.len() > 1 { v.push(Act::Supply(missing.clone())); if !w.last_req.is_empty() && w.last_req != missing { v.push(Act::Supply(w.last_req.iter().cloned().filter(|k| !w.supplied.contains(k)).collect())); } }
    }
    if let Some(&k) = w.supplied.iter().next() { v.push(Act::Resupply(k)); }
    v.push(Act::StepOnly);
    v.retain(|a| !matches!(a, Act::Supply(x) if x.is_empty()));
    v
}

fn key(w: &World) -> String { format!("{:?}|{}|{:?}|{:?}", w.supplied, w.last, w.log.borrow(), w.provide_errors) }
fn replay(g: &Graph, h: &[Act]) -> World { let mut w = start(g); for a in h { if w.done { break; } apply(&mut w, g, a); } w }

fn final_obs(w: &World) -> String {
    let mut names = api::get_export_names(&w.i); names.sort();
    let ex: Vec<String> = names.iter().map(|n| format!("{}={}", n, api::get_export(&w.i, n).map(|v| show(&v)).unwrap_or("-".into()))).collect();
    format!("{}|exports[{}]", w.last, ex.join("\u{1e}"))
}

/// run:<name> entries of the log must appear exactly once per module and after all of the module's imports
fn check_order(w: &World, g: &Graph) -> Option<String> {
    let log = w.log.borrow();
    let runs: Vec<String> = log.iter().filter_map(|l| l.strip_prefix("run:").map(|s| s.to_string())).collect();
    let mut all: Vec<String> = g.mods.iter().map(|(p, _)| p.clone()).collect(); all.push(g.main_path.clone());
    for p in &all { let c = runs.iter().filter(|r| *r == p).count(); if c != 1 { return Some(format!("module body of {} ran {} times (log {:?})", p, c, runs)); } }
    for (p, ds) in &g.deps { let pi = runs.iter().position(|r| r == p); for d in ds { let di = runs.iter().position(|r| r == d); if let (Some(a), Some(b)) = (pi, di) { if b > a { return Some(format!("{} ran before its import {} (order {:?})", p, d, runs)); } } } }
    None
}

pub fn case(v: &serde_json::Value) -> serde_json::Value {
    let g = Graph { main_path: v["main"]["path"].as_str().unwrap_or("/g/main.ts").to_string(), main_src: v["main"]["src"].as_str().unwrap_or("").to_string(),
        mods: v["modules"].as_array().map(|a| a.iter().filter_map(|m| { let m = m.as_array()?; Some((m.first()?.as_str()?.to_string(), m.get(1)?.as_str()?.to_string())) }).collect()).unwrap_or_default(),
        deps: v["deps"].as_object().map(|o| o.iter().map(|(k, d)| (k.clone(), d.as_array().map(|a| a.iter().filter_map(|x| x.as_str().map(|s| s.to_string())).collect()).unwrap_or_default())).collect()).unwrap_or_default() };
    let mode = v.get("mode").and_then(|x| x.as_str()).unwrap_or("subsets").to_string();
    let max_states = v.get("max_states").and_then(|x| x.as_u64()).unwrap_or(100_000);
    // canonical schedule: supply exactly what is requested, all at once
    let canon = { let mut w = start(&g); let mut guard = 0; while !w.done && guard < 50 { guard += 1; let req: Vec<usize> = w.last_req.iter().cloned().filter(|k| !w.supplied.contains(k)).collect(); if req.is_empty() { break; } apply(&mut w, &g, &Act::Supply(req)); } (final_obs(&w), w.done, w.viol.clone()) };
    let mut seen: HashSet<String> = HashSet::new(); let mut q: VecDeque<Vec<Act>> = VecDeque::new();
    let w0 = start(&g); seen.insert(key(&w0)); q.push_back(vec![]);
    let mut trans = 0u64; let mut replays = 1u64; let mut viol: Vec<serde_json::Value> = vec![]; let mut nviol = 0u64; let mut maxd = 0; let mut terminal = 0u64; let mut capped = false;
    let mut finals: HashSet<String> = HashSet::new();
    let mut record = |viol: &mut Vec<serde_json::Value>, nviol: &mut u64, h: &[Act], what: String| { *nviol += 1; let head: String = what.chars().take(40).collect(); if viol.len() < 8 && !viol.iter().any(|x| x["what"].as_str().map(|s| s.starts_with(head.as_str())).unwrap_or(false)) { viol.push(serde_json::json!({"history": h.iter().map(|a| format!("{:?}", a)).collect::<Vec<_>>(), "what": what})); } };
    for x in &w0.viol { record(&mut viol, &mut nviol, &[], x.clone()); }
    if !canon.1 { record(&mut viol, &mut nviol, &[], format!("the canonical schedule (supply exactly what is requested) does not terminate: {}", canon.0)); }
    // generator-known result: completion value and export names
    if let Some(ev) = v.get("expected_value").and_then(|x| x.as_str()) {
        let got_value = canon.0.split("|exports[").next().unwrap_or("").to_string();
        if got_value != format!("C({})", ev) { record(&mut viol, &mut nviol, &[], format!("canonical schedule completes with {} but the module graph defines {}", got_value, ev)); }
    }
    if let Some(en) = v.get("expected_exports").and_then(|x| x.as_array()) {
        let want: Vec<String> = en.iter().filter_map(|s| s.as_str().map(|t| t.to_string())).collect();
        let got: Vec<String> = canon.0.split("|exports[").nth(1).unwrap_or("").trim_end_matches(']').split('\u{1e}').filter(|s| !s.is_empty()).map(|kv| kv.split('=').next().unwrap_or("").to_string()).collect();
        if got != want { record(&mut viol, &mut nviol, &[], format!("main module exports {:?} but the graph defines {:?}", got, want)); }
    }
    while let Some(h) = q.pop_front() {
        let w = replay(&g, &h); replays += 1;
        if w.done {
            terminal += 1; let f = final_obs(&w); finals.insert(f.clone());
            if w.last.starts_with("C(") { if let Some(x) = check_order(&w, &g) { record(&mut viol, &mut nviol, &h, x); } }
            if f != canon.0 { record(&mut viol, &mut nviol, &h, format!("result depends on the supply schedule: {} vs canonical schedule {}", f, canon.0)); }
            continue;
        }
        if h.len() > g.mods.len() + 4 { record(&mut viol, &mut nviol, &h, "loading does not terminate: still waiting after more host actions than there are modules + 4".into()); continue; }
        let all_supplied = w.supplied.len() == g.mods.len();
        for a in enabled(&w, &g, &mode) {
            let mut h2 = h.clone(); h2.push(a.clone()); trans += 1;
            let w2 = replay(&g, &h2); replays += 1;
            for x in &w2.viol { if !w.viol.contains(x) { record(&mut viol, &mut nviol, &h2, x.clone()); } }
            if all_supplied && !w2.done { record(&mut viol, &mut nviol, &h2, format!("every module has been supplied but loading still reports {}", w2.last)); continue; }
            let k2 = key(&w2);
            if matches!(a, Act::StepOnly | Act::Resupply(_)) && !w2.done && k2 != key(&w) { record(&mut viol, &mut nviol, &h2, format!("{:?} changed the loader state: {} -> {}", a, w.last, w2.last)); }
            if seen.insert(k2) { maxd = maxd.max(h2.len()); q.push_back(h2); }
        }
        if seen.len() as u64 > max_states { capped = true; break; }
    }
    serde_json::json!({"status": "ok", "states": seen.len(), "transitions": trans, "replays": replays, "max_depth": maxd, "terminal_states": terminal, "distinct_outcomes": finals.len(), "capped": capped, "violations": viol, "nviol": nviol, "canonical": canon.0})
}

pub fn main(_args: &[String]) {
    let stdin = std::io::stdin(); let stdout = std::io::stdout(); let mut out = stdout.lock();
    for line in stdin.lock().lines() {
        let Ok(line) = line else { break }; if line.trim().is_empty() { continue; }
        let v: serde_json::Value = match serde_json::from_str(&line) { Ok(v) => v, Err(_) => continue };
        let id = v.get("id").cloned().unwrap_or(serde_json::Value::Null);
        let _ = writeln!(out, "BEGIN {}", id); let _ = out.flush();
        let mut j = match std::panic::catch_unwind(|| case(&v)) { Ok(j) => j, Err(_) => serde_json::json!({"status": "panic"}) }; j["id"] = id;
        let _ = writeln!(out, "{}", j); let _ = out.flush();
    }
}
