//! The C API as a C client sees it: prototypes and struct layouts transcribed from
//! examples/c-embedding/tsrun.h (NOT imported from tsrun::ffi), so linking and running against the real
//! exported symbols also checks the header against the implementation's ABI.
#![allow(dead_code, non_camel_case_types)]
use std::ffi::{c_char, c_void, CStr, CString};

#[repr(C)] pub struct TsRunContext { _p: [u8; 0] }
#[repr(C)] pub struct TsRunValue { _p: [u8; 0] }
#[repr(C)] pub struct TsRunInternalModule { _p: [u8; 0] }
pub type TsRunOrderId = u64;
#[repr(C)] #[derive(Clone, Copy)] pub struct TsRunValueResult { pub value: *mut TsRunValue, pub error: *const c_char }
#[repr(C)] #[derive(Clone, Copy)] pub struct TsRunResult { pub ok: bool, pub error: *const c_char }
pub const TSRUN_TYPE_UNDEFINED: i32 = 0; pub const TSRUN_TYPE_NULL: i32 = 1; pub const TSRUN_TYPE_BOOLEAN: i32 = 2; pub const TSRUN_TYPE_NUMBER: i32 = 3;
pub const TSRUN_TYPE_STRING: i32 = 4; pub const TSRUN_TYPE_OBJECT: i32 = 5; pub const TSRUN_TYPE_SYMBOL: i32 = 6;
pub const STEP_CONTINUE: i32 = 0; pub const STEP_COMPLETE: i32 = 1; pub const STEP_NEED_IMPORTS: i32 = 2; pub const STEP_SUSPENDED: i32 = 3; pub const STEP_DONE: i32 = 4; pub const STEP_ERROR: i32 = 5;
#[repr(C)] pub struct TsRunImportRequest { pub specifier: *const c_char, pub resolved_path: *const c_char, pub importer: *const c_char }
#[repr(C)] pub struct TsRunOrder { pub id: TsRunOrderId, pub payload: *mut TsRunValue }
#[repr(C)] pub struct TsRunStepResult { pub status: i32, pub value: *mut TsRunValue, pub imports: *mut TsRunImportRequest, pub import_count: usize,
    pub pending_orders: *mut TsRunOrder, pub pending_count: usize, pub cancelled_orders: *mut TsRunOrderId, pub cancelled_count: usize, pub error: *const c_char }
#[repr(C)] pub struct TsRunOrderResponse { pub id: TsRunOrderId, pub value: *mut TsRunValue, pub error: *const c_char }
#[repr(C)] pub struct TsRunGcStats { pub total_objects: usize, pub pooled_objects: usize, pub live_objects: usize }
pub type TsRunConsoleFn = Option<extern "C" fn(level: i32, message: *const c_char, message_len: usize, userdata: *mut c_void)>;
pub type TsRunNativeFn = Option<extern "C" fn(ctx: *mut TsRunContext, this_arg: *mut TsRunValue, args: *mut *mut TsRunValue, argc: usize, userdata: *mut c_void, error_out: *mut *const c_char) -> *mut TsRunValue>;

extern "C" {
    pub fn tsrun_version() -> *const c_char;
    pub fn tsrun_new() -> *mut TsRunContext;
    pub fn tsrun_free(ctx: *mut TsRunContext);
    pub fn tsrun_set_console(ctx: *mut TsRunContext, func: TsRunConsoleFn, userdata: *mut c_void) -> TsRunResult;
    pub fn tsrun_prepare(ctx: *mut TsRunContext, code: *const c_char, path: *const c_char) -> TsRunResult;
    pub fn tsrun_step(ctx: *mut TsRunContext) -> TsRunStepResult;
    pub fn tsrun_run(ctx: *mut TsRunContext) -> TsRunStepResult;
    pub fn tsrun_step_result_free(result: *mut TsRunStepResult);
    pub fn tsrun_provide_module(ctx: *mut TsRunContext, path: *const c_char, code: *const c_char) -> TsRunResult;
    pub fn tsrun_fulfill_orders(ctx: *mut TsRunContext, responses: *const TsRunOrderResponse, count: usize) -> TsRunResult;
    pub fn tsrun_create_pending_order(ctx: *mut TsRunContext, payload: *mut TsRunValue, order_id_out: *mut TsRunOrderId) -> TsRunValueResult;
    pub fn tsrun_create_order_promise(ctx: *mut TsRunContext, order_id: TsRunOrderId) -> TsRunValueResult;
    pub fn tsrun_resolve_promise(ctx: *mut TsRunContext, promise: *mut TsRunValue, value: *mut TsRunValue) -> TsRunResult;
    pub fn tsrun_reject_promise(ctx: *mut TsRunContext, promise: *mut TsRunValue, error: *const c_char) -> TsRunResult;
    pub fn tsrun_typeof(val: *const TsRunValue) -> i32;
    pub fn tsrun_is_undefined(val: *const TsRunValue) -> bool;
    pub fn tsrun_is_null(val: *const TsRunValue) -> bool;
    pub fn tsrun_is_nullish(val: *const TsRunValue) -> bool;
    pub fn tsrun_is_boolean(val: *const TsRunValue) -> bool;
    pub fn tsrun_is_number(val: *const TsRunValue) -> bool;
    pub fn tsrun_is_string(val: *const TsRunValue) -> bool;
    pub fn tsrun_is_object(val: *const TsRunValue) -> bool;
    pub fn tsrun_is_array(val: *const TsRunValue) -> bool;
    pub fn tsrun_is_function(val: *const TsRunValue) -> bool;
    pub fn tsrun_get_bool(val: *const TsRunValue) -> bool;
    pub fn tsrun_get_number(val: *const TsRunValue) -> f64;
    pub fn tsrun_get_string(val: *const TsRunValue) -> *const c_char;
    pub fn tsrun_get_string_len(val: *const TsRunValue) -> usize;
    pub fn tsrun_undefined(ctx: *mut TsRunContext) -> *mut TsRunValue;
    pub fn tsrun_null(ctx: *mut TsRunContext) -> *mut TsRunValue;
    pub fn tsrun_boolean(ctx: *mut TsRunContext, b: bool) -> *mut TsRunValue;
    pub fn tsrun_number(ctx: *mut TsRunContext, n: f64) -> *mut TsRunValue;
    pub fn tsrun_string(ctx: *mut TsRunContext, s: *const c_char) -> *mut TsRunValue;
    pub fn tsrun_string_len(ctx: *mut TsRunContext, s: *const c_char, len: usize) -> *mut TsRunValue;
    pub fn tsrun_json_parse(ctx: *mut TsRunContext, json: *const c_char) -> TsRunValueResult;
    pub fn tsrun_object_new(ctx: *mut TsRunContext) -> TsRunValueResult;
    pub fn tsrun_array_new(ctx: *mut TsRunContext) -> TsRunValueResult;
    pub fn tsrun_value_free(val: *mut TsRunValue);
    pub fn tsrun_value_dup(ctx: *mut TsRunContext, val: *const TsRunValue) -> *mut TsRunValue;
    pub fn tsrun_get(ctx: *mut TsRunContext, obj: *mut TsRunValue, key: *const c_char) -> TsRunValueResult;
    pub fn tsrun_set(ctx: *mut TsRunContext, obj: *mut TsRunValue, key: *const c_char, val: *mut TsRunValue) -> TsRunResult;
    pub fn tsrun_has(ctx: *mut TsRunContext, obj: *mut TsRunValue, key: *const c_char) -> bool;
    pub fn tsrun_delete(ctx: *mut TsRunContext, obj: *mut TsRunValue, key: *const c_char) -> TsRunResult;
    pub fn tsrun_keys(ctx: *mut TsRunContext, obj: *mut TsRunValue, count_out: *mut usize) -> *mut *mut c_char;
    pub fn tsrun_free_strings(strings: *mut *mut c_char, count: usize);
    pub fn tsrun_array_len(arr: *const TsRunValue) -> usize;
    pub fn tsrun_array_get(ctx: *mut TsRunContext, arr: *mut TsRunValue, index: usize) -> TsRunValueResult;
    pub fn tsrun_array_set(ctx: *mut TsRunContext, arr: *mut TsRunValue, index: usize, val: *mut TsRunValue) -> TsRunResult;
    pub fn tsrun_array_push(ctx: *mut TsRunContext, arr: *mut TsRunValue, val: *mut TsRunValue) -> TsRunResult;
    pub fn tsrun_call(ctx: *mut TsRunContext, func: *mut TsRunValue, this_arg: *mut TsRunValue, args: *mut *mut TsRunValue, argc: usize) -> TsRunValueResult;
    pub fn tsrun_call_method(ctx: *mut TsRunContext, obj: *mut TsRunValue, method: *const c_char, args: *mut *mut TsRunValue, argc: usize) -> TsRunValueResult;
    pub fn tsrun_get_global(ctx: *mut TsRunContext, name: *const c_char) -> TsRunValueResult;
    pub fn tsrun_set_global(ctx: *mut TsRunContext, name: *const c_char, val: *mut TsRunValue) -> TsRunResult;
    pub fn tsrun_get_export(ctx: *mut TsRunContext, name: *const c_char) -> TsRunValueResult;
    pub fn tsrun_get_export_names(ctx: *mut TsRunContext, count_out: *mut usize) -> *mut *mut c_char;
    pub fn tsrun_native_function(ctx: *mut TsRunContext, name: *const c_char, func: TsRunNativeFn, arity: usize, userdata: *mut c_void) -> TsRunValueResult;
    pub fn tsrun_json_stringify(ctx: *mut TsRunContext, val: *mut TsRunValue) -> *mut c_char;
    pub fn tsrun_free_string(s: *mut c_char);
    pub fn tsrun_internal_module_new(specifier: *const c_char) -> *mut TsRunInternalModule;
    pub fn tsrun_internal_module_add_function(module: *mut TsRunInternalModule, name: *const c_char, func: TsRunNativeFn, arity: usize, userdata: *mut c_void);
    pub fn tsrun_internal_module_add_value(module: *mut TsRunInternalModule, name: *const c_char, value: *mut TsRunValue);
    pub fn tsrun_register_internal_module(ctx: *mut TsRunContext, module: *mut TsRunInternalModule) -> TsRunResult;
    pub fn tsrun_gc_stats(ctx: *mut TsRunContext) -> TsRunGcStats;
}

pub fn cs(s: &str) -> CString { CString::new(s.replace('\0', "")).unwrap_or_default() }
/// Read a C string the API returned; validates NUL termination within a sane bound and UTF-8.
pub unsafe fn rs(p: *const c_char) -> Result<String, String> {
    if p.is_null() { return Err("NULL".into()); }
    let c = CStr::from_ptr(p);
    c.to_str().map(|s| s.to_string()).map_err(|_| "invalid UTF-8".to_string())
}
