//! C12 — determinism and isolation of interpreter instances.
//!   tvh iso interleave   JSONL {id, a:{src..}, b:{src..}, switches, stride}: every interleaving of the two
//!                        programs' host steps with at most `switches` context switches; each interpreter's
//!                        full trace must equal its solo trace
//!   tvh iso lifetimes    JSONL {id, progs:[..], probe:{..}, depth}: all histories over create/run/fail/abandon/drop
//!   tvh iso threads      JSONL {id, a, b}: the same with each interpreter on its own OS thread (turnstile)
//!   tvh iso digest <k>   reads JSONL programs, prints one digest line per program after displacing the heap by k*16 bytes
use crate::common::*;
use std::io::{BufRead, Write};
use tsrun::{Interpreter, JsValue, ModulePath, OrderResponse, RuntimeValue, StepResult};

#[derive(Clone)]
pub struct Prog { pub src: String, pub path: Option<String>, pub modules: Vec<(String, String)> }
pub fn prog(v: &serde_json::Value) -> Prog {
    Prog { src: v.get("src").and_then(|x| x.as_str()).unwrap_or("").to_string(), path: v.get("path").and_then(|x| x.as_str()).map(|s| s.to_string()),
        modules: v.get("modules").and_then(|x| x.as_array()).map(|a| a.iter().filter_map(|m| { let m = m.as_array()?; Some((m.first()?.as_str()?.to_string(), m.get(1)?.as_str()?.to_string())) }).collect()).unwrap_or_default() }
}

/// A stepping machine around one interpreter: one host-visible action per `advance()`.
pub struct Machine { i: Interpreter, log: Log, p: Prog, pending: Option<Result<StepResult, tsrun::JsError>>, pub trace: Vec<String>, pub done: bool, n: u64 }
impl Machine {
    pub fn new(p: &Prog) -> Machine {
        let (mut i, log) = new_interp();
        let first = i.prepare(&p.src, p.path.as_ref().map(|s| ModulePath::new(s.as_str())));
        Machine { i, log, p: p.clone(), pending: Some(first), trace: vec![], done: false, n: 0 }
    }
    /// One host action: consume the last result (answer orders / supply modules) and call step() once.
    pub fn advance(&mut self) {
        if self.done { return; }
        self.n += 1;
        if self.n > 100_000 { self.trace.push("BUDGET".into()); self.done = true; return; }
        let r = self.pending.take().unwrap_or_else(|| self.i.step());
        match r {
            Ok(StepResult::Continue) => { self.trace.push("c".into()); self.pending = Some(self.i.step()); }
            Ok(StepResult::Complete(v)) => { let shown = show(v.value());
                // (the host's view of the main module's exports, in the order the interpreter reports them)
                let names = tsrun::api::get_export_names(&self.i);
                self.trace.push(format!("Complete({})|{:?}|exports{:?}", shown, self.log.borrow(), names)); self.done = true; }
            Ok(StepResult::NeedImports(reqs)) => {
                self.trace.push(format!("Need{:?}", reqs.iter().map(|q| q.resolved_path.as_str().to_string()).collect::<Vec<_>>()));
                let mut did = false;
                for q in &reqs { if let Some((_, src)) = self.p.modules.iter().find(|(pa, _)| pa == q.resolved_path.as_str()) { let _ = self.i.provide_module(q.resolved_path.clone(), src); did = true; } }
                if !did { self.done = true; } else { self.pending = Some(self.i.step()); }
            }
            Ok(StepResult::Suspended { pending, cancelled }) => {
                self.trace.push(format!("Susp({:?},{:?})", pending.iter().map(|o| (o.id.0, show(o.payload.value()))).collect::<Vec<_>>(), cancelled.iter().map(|c| c.0).collect::<Vec<_>>()));
                if pending.is_empty() { self.done = true; } else {
                    self.i.fulfill_orders(pending.iter().map(|o| OrderResponse { id: o.id, result: Ok(RuntimeValue::unguarded(JsValue::from(format!("v{}", o.id.0)))) }).collect());
                    self.pending = Some(self.i.step());
                }
            }
            Ok(StepResult::Done) => { self.trace.push("Done".into()); self.done = true; }
            Err(e) => { self.trace.push(format!("Err({})|{:?}", errclass(&e), self.log.borrow())); self.done = true; }
        }
    }
    pub fn run_all(&mut self) { while !self.done { self.advance(); } }
    pub fn digest(&self) -> String { sha1_hex(&self.trace.join("\n")) }
}

/// Runs `f` with the native stack pointer `kib` KiB below the caller's: what a host does when it steps an
/// interpreter from a deeper frame (an event handler, a host function of another instance).
#[inline(never)]
fn displaced(kib: usize, f: &mut dyn FnMut()) {
    if kib == 0 { return f(); }
    let pad = [0u8; 4096]; std::hint::black_box(&pad);
    displaced(kib.saturating_sub(4), f);
    std::hint::black_box(&pad);
}

fn solo(p: &Prog) -> Vec<String> { let mut m = Machine::new(p); m.run_all(); m.trace }

/// All schedules with at most `k` context switches: a schedule is the list of run lengths, starting with A or B.
fn interleave(v: &serde_json::Value) -> serde_json::Value {
    let a = prog(&v["a"]); let b = prog(&v["b"]); let k = v.get("switches").and_then(|x| x.as_u64()).unwrap_or(2) as usize; let stride = v.get("stride").and_then(|x| x.as_u64()).unwrap_or(1).max(1) as usize;
    let sa = solo(&a); let sb = solo(&b); let (na, nb) = (sa.len(), sb.len());
    let disp = v.get("displace_kib").and_then(|x| x.as_u64()).unwrap_or(0) as usize;
    let mut schedules: Vec<Vec<(u8, usize)>> = vec![]; // (who, steps); the final segments run to completion
    // enumerate cut points: a schedule with s switches starting with X is X:c1, Y:c2, X:c3 ... last runs to the end
    fn rec(out: &mut Vec<Vec<(u8, usize)>>, cur: &mut Vec<(u8, usize)>, who: u8, left: [usize; 2], switches_left: usize, stride: usize) {
        // option: stop switching - whoever runs now finishes, then the other finishes
        let mut fin = cur.clone(); fin.push((who, usize::MAX)); fin.push((1 - who, usize::MAX)); out.push(fin);
        if switches_left == 0 { return; }
        let me = left[who as usize];
        let mut c = 1; while c < me { cur.push((who, c)); let mut l2 = left; l2[who as usize] -= c; rec(out, cur, 1 - who, l2, switches_left - 1, stride); cur.pop(); c += stride; }
    }
    // cost bound: the number of schedules grows with (steps/stride)^switches; long programs get a wider stride so
    // that one pair stays below `max_schedules` (the stride actually used is reported)
    let cap = v.get("max_schedules").and_then(|x| x.as_u64()).unwrap_or(u64::MAX);
    fn count(who: u8, left: [usize; 2], switches_left: usize, stride: usize) -> u64 {
        let mut n = 1u64; if switches_left == 0 { return n; }
        let me = left[who as usize]; let mut c = 1; while c < me { let mut l2 = left; l2[who as usize] -= c; n = n.saturating_add(count(1 - who, l2, switches_left - 1, stride)); c += stride; if n > (1 << 40) { return n; } }
        n
    }
    let mut stride = stride;
    while count(0, [na, nb], k, stride).saturating_add(count(1, [na, nb], k, stride)) > cap { stride = stride * 3 / 2 + 1; }
    for start in [0u8, 1u8] { let mut cur = vec![]; rec(&mut schedules, &mut cur, start, [na, nb], k, stride); }
    let mut runs = 0u64; let mut bad: Vec<serde_json::Value> = vec![]; let mut nbad = 0u64; let mut distinct = std::collections::HashSet::new();
    for s in &schedules {
        let mut ma = Machine::new(&a); let mut mb = Machine::new(&b);
        // each machine's own segments alternate between the host's top frame and a frame `displace_kib` deeper
        let mut segs = [0usize; 2];
        for (who, cnt) in s { let m = if *who == 0 { &mut ma } else { &mut mb }; let kib = if segs[*who as usize] % 2 == 1 { disp } else { 0 }; segs[*who as usize] += 1;
            displaced(kib, &mut || { let mut c = 0; while !m.done && c < *cnt { m.advance(); c += 1; } }); }
        ma.run_all(); mb.run_all(); runs += 1;
        distinct.insert(format!("{:?}", s.iter().map(|x| x.1.min(9999)).collect::<Vec<_>>()));
        for (name, got, want) in [("a", &ma.trace, &sa), ("b", &mb.trace, &sb)] {
            if got != want { nbad += 1; if bad.len() < 5 { let at = got.iter().zip(want.iter()).position(|(x, y)| x != y).unwrap_or(got.len().min(want.len()));
                bad.push(serde_json::json!({"schedule": s.iter().map(|(w, c)| format!("{}:{}", if *w == 0 { "a" } else { "b" }, if *c == usize::MAX { "end".to_string() } else { c.to_string() })).collect::<Vec<_>>(), "who": name, "at_step": at, "got": got.get(at), "want": want.get(at)})); } }
        }
    }
    serde_json::json!({"status": "ok", "schedules": runs, "steps_a": na, "steps_b": nb, "nbad": nbad, "bad": bad, "distinct": distinct.len(), "stride_used": stride, "displace_kib": disp})
}

#[derive(Clone, Copy, Debug, PartialEq, Eq, Hash)]
enum L { Create(u8), Run(u8, u8), Abandon(u8, u8), Drop(u8) }

fn lifetimes(v: &serde_json::Value) -> serde_json::Value {
    let progs: Vec<Prog> = v["progs"].as_array().map(|a| a.iter().map(prog).collect()).unwrap_or_default();
    let probe = prog(&v["probe"]); let depth = v.get("depth").and_then(|x| x.as_u64()).unwrap_or(3) as usize; let slots = 3u8;
    let want = solo(&probe);
    let mut histories: Vec<Vec<L>> = vec![vec![]]; let mut all: Vec<Vec<L>> = vec![vec![]];
    for _ in 0..depth {
        let mut next = vec![];
        for h in &histories {
            let mut alive = [false; 3]; for op in h { match op { L::Create(s) => alive[*s as usize] = true, L::Drop(s) => alive[*s as usize] = false, _ => {} } }
            for s in 0..slots { if !alive[s as usize] { if s == 0 || alive[s as usize - 1] || h.iter().any(|o| matches!(o, L::Create(x) if *x == s)) { let mut h2 = h.clone(); h2.push(L::Create(s)); next.push(h2); } }
                else { for pi in 0..progs.len() as u8 { let mut h2 = h.clone(); h2.push(L::Run(s, pi)); next.push(h2); let mut h3 = h.clone(); h3.push(L::Abandon(s, pi)); next.push(h3); } let mut h4 = h.clone(); h4.push(L::Drop(s)); next.push(h4); } }
        }
        all.extend(next.iter().cloned()); histories = next;
    }
    let mut bad: Vec<serde_json::Value> = vec![]; let mut nbad = 0u64; let mut runs = 0u64;
    for h in &all {
        let mut inst: [Option<Interpreter>; 3] = [None, None, None];
        for op in h { match op {
            L::Create(s) => { inst[*s as usize] = Some(new_interp().0); }
            L::Drop(s) => { inst[*s as usize] = None; }
            L::Run(s, pi) | L::Abandon(s, pi) => { if let Some(i) = inst[*s as usize].as_mut() { let p = &progs[*pi as usize]; let limit = if matches!(op, L::Abandon(..)) { 9 } else { 200_000 };
                let mut r = i.prepare(&p.src, p.path.as_ref().map(|x| ModulePath::new(x.as_str()))); let mut n = 0;
                loop { n += 1; if n > limit { break; } match r { Ok(StepResult::Continue) => r = i.step(), Ok(StepResult::Suspended { ref pending, .. }) if !pending.is_empty() => { let resp = pending.iter().map(|o| OrderResponse { id: o.id, result: Ok(RuntimeValue::unguarded(JsValue::from("x"))) }).collect(); i.fulfill_orders(resp); r = i.step(); } _ => break } } } }
        } }
        let got = solo(&probe); runs += 1;
        if got != want { nbad += 1; if bad.len() < 5 { bad.push(serde_json::json!({"history": h.iter().map(|o| format!("{:?}", o)).collect::<Vec<_>>(), "what": "probe run on a fresh interpreter differs after this history of other instances"})); } }
        drop(inst);
    }
    serde_json::json!({"status": "ok", "histories": runs, "nbad": nbad, "bad": bad, "probe_steps": want.len()})
}

fn threads(v: &serde_json::Value) -> serde_json::Value {
    use std::sync::mpsc::channel;
    let a = prog(&v["a"]); let b = prog(&v["b"]); let sa = solo(&a); let sb = solo(&b);
    let chunk = v.get("chunk").and_then(|x| x.as_u64()).unwrap_or(1) as usize;
    // turnstile: thread A advances `chunk` steps, hands over to B, and so on
    let (to_b, from_a) = channel::<bool>(); let (to_a, from_b) = channel::<bool>();
    let (a2, b2) = (a.clone(), b.clone());
    let ta = std::thread::spawn(move || { let mut m = Machine::new(&a2); loop { for _ in 0..chunk { m.advance(); } let _ = to_b.send(m.done); match from_b.recv() { Ok(_) => {} Err(_) => { m.run_all(); break; } } if m.done { break; } } m.run_all(); m.trace });
    let tb = std::thread::spawn(move || { let mut m = Machine::new(&b2); loop { match from_a.recv() { Ok(_) => {} Err(_) => { m.run_all(); break; } } for _ in 0..chunk { m.advance(); } let _ = to_a.send(m.done); if m.done { break; } } m.run_all(); m.trace });
    let ga = ta.join().unwrap_or_default(); let gb = tb.join().unwrap_or_default();
    let mut bad = vec![];
    if ga != sa { bad.push("a"); } if gb != sb { bad.push("b"); }
    serde_json::json!({"status": "ok", "nbad": bad.len(), "bad": bad, "steps_a": sa.len(), "steps_b": sb.len()})
}

pub fn main(args: &[String]) {
    let mode = args.first().map(|s| s.as_str()).unwrap_or("");
    if mode == "digest" {
        let k: usize = args.get(1).and_then(|s| s.parse().ok()).unwrap_or(0);
        // displace the heap: k allocations of 16 bytes kept alive, plus one block of k*4096+1 bytes
        let mut keep: Vec<Vec<u8>> = (0..k).map(|_| vec![0u8; 16]).collect(); keep.push(vec![1u8; k * 4096 + 1]);
        let stdin = std::io::stdin();
        for line in stdin.lock().lines() { let Ok(line) = line else { break }; if line.trim().is_empty() { continue; } let v: serde_json::Value = match serde_json::from_str(&line) { Ok(v) => v, Err(_) => continue };
            let p = prog(&v); let mut m = Machine::new(&p); m.run_all(); println!("{} {} {}", v["id"].as_str().unwrap_or("?"), m.digest(), m.trace.len()); }
        drop(keep);
        return;
    }
    let stdin = std::io::stdin(); let stdout = std::io::stdout(); let mut out = stdout.lock();
    for line in stdin.lock().lines() {
        let Ok(line) = line else { break }; if line.trim().is_empty() { continue; }
        let v: serde_json::Value = match serde_json::from_str(&line) { Ok(v) => v, Err(_) => continue };
        let id = v.get("id").cloned().unwrap_or(serde_json::Value::Null);
        let _ = writeln!(out, "BEGIN {}", id); let _ = out.flush();
        let r = std::panic::catch_unwind(|| match mode { "interleave" => interleave(&v), "lifetimes" => lifetimes(&v), "threads" => threads(&v), _ => serde_json::json!({"status": "badmode"}) });
        let mut j = r.unwrap_or_else(|_| serde_json::json!({"status": "panic"})); j["id"] = id;
        let _ = writeln!(out, "{}", j); let _ = out.flush();
    }
}
