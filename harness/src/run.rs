//! Batch program runner: JSONL cases on stdin, one JSON observation per line on stdout.
//! Case fields: id, src, path?, gc?, collect_every?, collect_after?[], alloc_collect?[],
//! budget?, vm_budget?, modules?[[path,src]], answer_orders?
use crate::common::*;
use std::io::{BufRead, Write};

pub fn case_policy(v: &serde_json::Value) -> Policy {
    let mut p = Policy::default();
    if let Some(g) = v.get("gc").and_then(|x| x.as_u64()) { p.gc_threshold = Some(g as usize); }
    if let Some(b) = v.get("budget").and_then(|x| x.as_u64()) { p.budget = b; }
    if let Some(b) = v.get("collect_every").and_then(|x| x.as_bool()) { p.collect_every = b; }
    if let Some(a) = v.get("collect_after").and_then(|x| x.as_array()) { p.collect_after = a.iter().filter_map(|x| x.as_u64()).collect(); }
    if let Some(a) = v.get("modules").and_then(|x| x.as_array()) {
        p.modules = a.iter().filter_map(|m| { let m = m.as_array()?; Some((m.first()?.as_str()?.to_string(), m.get(1)?.as_str()?.to_string())) }).collect();
    }
    if let Some(b) = v.get("answer_orders").and_then(|x| x.as_bool()) { p.answer_orders = b; }
    if let Some(s) = v.get("path").and_then(|x| x.as_str()) { p.path = Some(s.to_string()); }
    p
}

pub fn run_case(v: &serde_json::Value) -> Obs {
    let src = v.get("src").and_then(|x| x.as_str()).unwrap_or("").to_string();
    let p = case_policy(v);
    let vm_budget = v.get("vm_budget").and_then(|x| x.as_u64()).unwrap_or(p.budget.saturating_mul(20));
    let alloc_collect: Vec<u64> = v.get("alloc_collect").and_then(|x| x.as_array()).map(|a| a.iter().filter_map(|x| x.as_u64()).collect()).unwrap_or_default();
    tsrun::gc::verif::reset();
    tsrun::verif_hooks::reset(0, vm_budget);
    let mut o = guarded(move || {
        let (mut i, log) = new_interp();
        if let Some(t) = p.gc_threshold { i.set_gc_threshold(t); }
        // arm collection points only after interpreter construction, ordinals count from here
        tsrun::gc::verif::reset();
        if !alloc_collect.is_empty() { tsrun::gc::verif::arm_collect_at(alloc_collect); }
        let first = i.prepare(&src, p.path.as_ref().map(|s| tsrun::ModulePath::new(s.as_str())));
        let mut o = drive(&mut i, &log, first, &p);
        o.msg = format!("{}|allocs={}", o.msg, tsrun::gc::verif::alloc_ordinal());
        o
    });
    if o.status == "panic" && o.msg.contains("TSRUN_VERIF_VM_BUDGET") { o.status = "budget".into(); o.msg = "vm budget inside one host step".into(); }
    o.stale = tsrun::gc::verif::stale().0;
    tsrun::verif_hooks::reset(0, 0);
    o
}

pub fn main(_args: &[String]) {
    let stdin = std::io::stdin();
    let stdout = std::io::stdout();
    let mut out = stdout.lock();
    for line in stdin.lock().lines() {
        let Ok(line) = line else { break };
        if line.trim().is_empty() { continue; }
        let v: serde_json::Value = match serde_json::from_str(&line) { Ok(v) => v, Err(_) => continue };
        let id = v.get("id").cloned().unwrap_or(serde_json::Value::Null);
        let _ = writeln!(out, "BEGIN {}", id);
        let _ = out.flush();
        let o = run_case(&v);
        let mut j = o.to_json();
        j["id"] = id;
        let _ = writeln!(out, "{}", j);
        let _ = out.flush();
    }
}

/// C02: one program under every collection schedule of the stated families; compares each run with the
/// baseline (collection disabled) inside the worker and reports only the differences.
/// Input fields as `run` plus: pairs (bool) - also every pair i<j of forced-collect steps when steps <= 60.
pub fn gcsched_case(v: &serde_json::Value) -> serde_json::Value {
    let mut base = v.clone();
    base["gc"] = 0.into();
    let b = run_case(&base);
    let allocs: u64 = b.msg.rsplit("allocs=").next().and_then(|s| s.parse().ok()).unwrap_or(0);
    let steps = b.steps;
    let bcore = b.core();
    let mut runs = 1u64; let mut diffs: Vec<serde_json::Value> = vec![]; let mut stale_total = b.stale; let mut ndiff = 0u64;
    if b.stale != 0 { ndiff += 1; diffs.push(serde_json::json!({"schedule": "baseline", "obs": bcore, "stale": b.stale})); }
    let mut try_sched = |name: String, patch: &dyn Fn(&mut serde_json::Value)| {
        let mut c = v.clone(); c["gc"] = 0.into(); patch(&mut c);
        let o = run_case(&c); runs += 1; stale_total += o.stale;
        if o.core() != bcore || o.stale != 0 { ndiff += 1; if diffs.len() < 6 { diffs.push(serde_json::json!({"schedule": name, "obs": o.core(), "stale": o.stale, "msg": o.msg.chars().take(120).collect::<String>()})); } }
    };
    for t in [1u64, 2, 3, 5, 7, 100] { try_sched(format!("threshold={}", t), &|c| { c["gc"] = t.into(); }); }
    try_sched("collect-after-every-step".into(), &|c| { c["collect_every"] = true.into(); });
    let max_points = v.get("max_points").and_then(|x| x.as_u64()).unwrap_or(100_000);
    if b.status != "budget" {
        let sstride = (steps / max_points).max(1);
        let mut i = 1; while i <= steps { try_sched(format!("collect-after-step={}", i), &|c| { c["collect_after"] = serde_json::json!([i]); }); i += sstride; }
        let astride = (allocs / max_points).max(1);
        let mut i = 1; while i <= allocs { try_sched(format!("collect-before-alloc={}", i), &|c| { c["alloc_collect"] = serde_json::json!([i]); }); i += astride; }
        if v.get("pairs").and_then(|x| x.as_bool()).unwrap_or(false) && allocs <= 40 {
            for i in 1..=allocs { for j in (i + 1)..=allocs { try_sched(format!("collect-before-allocs={},{}", i, j), &|c| { c["alloc_collect"] = serde_json::json!([i, j]); }); } }
        }
    }
    serde_json::json!({"status": "ok", "base": bcore, "base_status": b.status, "steps": steps, "allocs": allocs, "runs": runs, "ndiff": ndiff, "diffs": diffs, "stale": stale_total})
}

pub fn gcsched_main(_args: &[String]) {
    let stdin = std::io::stdin(); let stdout = std::io::stdout(); let mut out = stdout.lock();
    for line in stdin.lock().lines() {
        let Ok(line) = line else { break }; if line.trim().is_empty() { continue; }
        let v: serde_json::Value = match serde_json::from_str(&line) { Ok(v) => v, Err(_) => continue };
        let id = v.get("id").cloned().unwrap_or(serde_json::Value::Null);
        let _ = writeln!(out, "BEGIN {}", id); let _ = out.flush();
        let mut j = gcsched_case(&v); j["id"] = id;
        let _ = writeln!(out, "{}", j); let _ = out.flush();
    }
}

/// C14: run the same program k times on one interpreter, collect after each run, report live object counts.
/// One run of another program on the same interpreter: {src, path?, modules?, entry?, stop?} (stop = abandon after n host steps)
fn run_other(i: &mut tsrun::Interpreter, log: &Log, h: &serde_json::Value) {
    let mut q = case_policy(h);
    if let Some(n) = h.get("stop").and_then(|x| x.as_u64()) { q.budget = n; }
    let src = h.get("src").and_then(|x| x.as_str()).unwrap_or("");
    let mp = q.path.as_ref().map(|s| tsrun::ModulePath::new(s.as_str()));
    let first = if h.get("entry").and_then(|x| x.as_str()) == Some("eval") { i.eval(src, mp) } else { i.prepare(src, mp) };
    let _ = drive(i, log, first, &q);
}

pub fn leak_case(v: &serde_json::Value) -> serde_json::Value {
    let src = v.get("src").and_then(|x| x.as_str()).unwrap_or("").to_string();
    let k = v.get("k").and_then(|x| x.as_u64()).unwrap_or(8);
    let gc = v.get("gc").and_then(|x| x.as_u64());
    let p = case_policy(v);
    let use_eval = v.get("entry").and_then(|x| x.as_str()) == Some("eval");
    let others = |key: &str| -> Vec<serde_json::Value> { v.get(key).and_then(|x| x.as_array()).cloned().unwrap_or_default() };
    let history = others("history"); let between = others("between");
    let r = std::panic::catch_unwind(move || {
        let (mut i, log) = new_interp();
        if let Some(t) = gc { i.set_gc_threshold(t as usize); }
        let mut lives: Vec<u64> = vec![]; let mut outs: Vec<String> = vec![]; let mut summaries: Vec<String> = vec![];
        // other runs this interpreter has seen before the repetitions start, and between them
        for h in &history { run_other(&mut i, &log, h); }
        for _ in 0..k {
            for h in &between { run_other(&mut i, &log, h); }
            log.borrow_mut().clear();
            let mp = p.path.as_ref().map(|s| tsrun::ModulePath::new(s.as_str()));
            let first = if use_eval { i.eval(&src, mp) } else { i.prepare(&src, mp) };
            let o = drive(&mut i, &log, first, &p);
            outs.push(o.core());
            i.collect();
            lives.push(i.gc_stats().live_objects as u64);
            summaries.push(i.verif_summary());
        }
        serde_json::json!({"status": "ok", "lives": lives, "outs": outs, "summary_last": summaries.last(), "summary_first": summaries.first()})
    });
    r.unwrap_or_else(|_| serde_json::json!({"status": "panic"}))
}

pub fn leak_main(_args: &[String]) {
    let stdin = std::io::stdin(); let stdout = std::io::stdout(); let mut out = stdout.lock();
    for line in stdin.lock().lines() {
        let Ok(line) = line else { break }; if line.trim().is_empty() { continue; }
        let v: serde_json::Value = match serde_json::from_str(&line) { Ok(v) => v, Err(_) => continue };
        let id = v.get("id").cloned().unwrap_or(serde_json::Value::Null);
        let _ = writeln!(out, "BEGIN {}", id); let _ = out.flush();
        let mut j = leak_case(&v); j["id"] = id;
        let _ = writeln!(out, "{}", j); let _ = out.flush();
    }
}
