//! C20: run a program (optionally multi-module) and report the failure structurally:
//! error class, message, syntax location, stack frames.
//! Case: {id, src, path, modules:[[path,src]...], budget?}
use crate::common::*;
use std::io::{BufRead, Write};
use tsrun::{JsError, ModulePath, StepResult};

fn loc_json(l: &tsrun::error::SourceLocation) -> serde_json::Value {
    serde_json::json!({"file": l.file, "line": l.line, "column": l.column, "length": l.length})
}

pub fn err_json(e: &JsError) -> serde_json::Value {
    match e {
        JsError::SyntaxError { message, location } => serde_json::json!({"class": "SyntaxError", "message": message, "loc": loc_json(location)}),
        JsError::TypeError { message, location } => serde_json::json!({"class": "TypeError", "message": message, "loc": location.as_ref().map(loc_json)}),
        JsError::RuntimeError { kind, message, stack } => serde_json::json!({"class": kind, "message": message,
            "stack": stack.iter().map(|f| serde_json::json!({"fn": f.function_name, "file": f.file, "line": f.line, "column": f.column})).collect::<Vec<_>>()}),
        other => serde_json::json!({"class": errclass(other), "message": errmsg(other)}),
    }
}

fn case(v: &serde_json::Value) -> serde_json::Value {
    let src = v.get("src").and_then(|x| x.as_str()).unwrap_or("").to_string();
    let path = v.get("path").and_then(|x| x.as_str()).map(|s| s.to_string());
    let modules: Vec<(String, String)> = v.get("modules").and_then(|x| x.as_array()).map(|a| a.iter().filter_map(|m| { let m = m.as_array()?; Some((m.first()?.as_str()?.to_string(), m.get(1)?.as_str()?.to_string())) }).collect()).unwrap_or_default();
    let budget = v.get("budget").and_then(|x| x.as_u64()).unwrap_or(500_000);
    let r = std::panic::catch_unwind(move || {
        let (mut i, log) = new_interp();
        let mut r = i.prepare(&src, path.as_ref().map(|s| ModulePath::new(s.as_str())));
        let mut n = 0u64;
        loop {
            match r {
                Ok(StepResult::Continue) => { n += 1; if n > budget { return serde_json::json!({"status": "budget"}); } r = i.step(); }
                Ok(StepResult::Complete(val)) => return serde_json::json!({"status": "ok", "value": show(val.value()), "log": log.borrow().clone()}),
                Ok(StepResult::NeedImports(reqs)) => {
                    let mut did = false;
                    for q in &reqs {
                        if let Some((_, s)) = modules.iter().find(|(p, _)| p == q.resolved_path.as_str() || p.strip_suffix(".ts") == Some(q.resolved_path.as_str())) {
                            if let Err(e) = i.provide_module(q.resolved_path.clone(), s) {
                                return serde_json::json!({"status": "err", "where": "provide_module", "module": q.resolved_path.as_str(), "error": err_json(&e), "display": format!("{}", e)});
                            }
                            did = true;
                        }
                    }
                    if !did { return serde_json::json!({"status": "need"}); }
                    r = i.step();
                }
                Ok(StepResult::Suspended { .. }) => return serde_json::json!({"status": "stuck"}),
                Ok(StepResult::Done) => return serde_json::json!({"status": "done"}),
                Err(e) => return serde_json::json!({"status": "err", "where": if n == 0 { "prepare" } else { "step" }, "error": err_json(&e), "display": format!("{}", e), "log": log.borrow().clone()}),
            }
        }
    });
    r.unwrap_or_else(|_| serde_json::json!({"status": "panic"}))
}

pub fn main(_args: &[String]) {
    let stdin = std::io::stdin(); let stdout = std::io::stdout(); let mut out = stdout.lock();
    for line in stdin.lock().lines() {
        let Ok(line) = line else { break }; if line.trim().is_empty() { continue; }
        let v: serde_json::Value = match serde_json::from_str(&line) { Ok(v) => v, Err(_) => continue };
        let id = v.get("id").cloned().unwrap_or(serde_json::Value::Null);
        let _ = writeln!(out, "BEGIN {}", id); let _ = out.flush();
        let mut j = case(&v); j["id"] = id;
        let _ = writeln!(out, "{}", j); let _ = out.flush();
    }
}
