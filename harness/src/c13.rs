//! C13 — explicit-state exploration of Heap/Guard/Gc against a plain reachability model.
//! A state is the history reaching it (re-materialised by replay on a fresh heap); the state key
//! is (model state, implementation dump) so merged states really have the same futures.
use std::collections::{BTreeMap, HashSet};
use tsrun::gc::{Gc, GcPtr, Guard, Heap, Reset, Traceable};

#[derive(Default, Debug)]
pub struct N { v: u32, refs: Vec<Gc<N>> }
impl Reset for N { fn reset(&mut self) { self.v = 0; self.refs.clear(); } }
impl Traceable for N { fn trace<F: FnMut(GcPtr<Self>)>(&self, mut f: F) { for r in &self.refs { f(r.copy_ref()); } } }

#[derive(Clone, Copy, Debug, PartialEq, Eq, Hash)]
pub enum Op { NewGuard, DropGuard(u8), Alloc(u8), GuardAdd(u8, u8), Unguard(u8, u8), Clear(u8), CloneH(u8), DropH(u8),
    Link(u8, u8), Unlink(u8), SetVal(u8), Collect, Thresh(u8), DropHeap,
    // prefix macro-operations (only used in scripted non-initial states)
    Bulk(u16, u8), // allocate n objects in guard 0 in shape s (0 chain,1 star,2 cycle,3 garbage), keep handle to first
    GuardChurn(u8), // create and drop n guards
}

#[derive(Clone, Debug)]
struct MObj { val: u32, edges: Vec<u32>, dead: bool }
#[derive(Clone, Default, Debug)]
struct Model { guards: Vec<Option<Vec<u32>>>, objs: BTreeMap<u32, MObj>, handles: Vec<Option<u32>>, next_obj: u32, next_val: u32, heap_dropped: bool }
impl Model {
    fn reachable(&self) -> HashSet<u32> {
        let mut s = HashSet::new();
        if self.heap_dropped { return s; }
        let mut st: Vec<u32> = vec![];
        for g in self.guards.iter().flatten() { for &r in g { if !self.objs[&r].dead { st.push(r); } } }
        while let Some(o) = st.pop() { if s.insert(o) { for &e in &self.objs[&o].edges { if !self.objs[&e].dead { st.push(e); } } } }
        s
    }
    fn collect(&mut self) { let r = self.reachable(); for (id, o) in self.objs.iter_mut() { if !r.contains(id) { o.dead = true; o.edges.clear(); } } }
    fn fresh(&self, h: u8) -> bool { match self.handles[h as usize] { Some(o) => !self.objs[&o].dead && !self.heap_dropped, None => false } }
}
struct Impl { heap: Option<Heap<N>>, guards: Vec<Option<Guard<N>>>, handles: Vec<Option<Gc<N>>> }

pub struct Bounds { pub maxg: usize, pub maxh: usize, pub maxo: u32 }

fn put<T>(v: &mut Vec<Option<T>>, x: T) { if let Some(i) = v.iter().position(|e| e.is_none()) { v[i] = Some(x); } else { v.push(Some(x)); } }

fn enabled(m: &Model, b: &Bounds) -> Vec<Op> {
    let mut v = vec![];
    let live_g: Vec<u8> = m.guards.iter().enumerate().filter(|(_, g)| g.is_some()).map(|(i, _)| i as u8).collect();
    let live_h: Vec<u8> = m.handles.iter().enumerate().filter(|(_, h)| h.is_some()).map(|(i, _)| i as u8).collect();
    if m.heap_dropped {
        // only the realistic late drops / clones remain
        for &g in &live_g { v.push(Op::DropGuard(g)); }
        for &h in &live_h { if live_h.len() < b.maxh { v.push(Op::CloneH(h)); } v.push(Op::DropH(h)); }
        return v;
    }
    let reach = m.reachable();
    let nobj = m.objs.values().filter(|o| !o.dead).count() as u32;
    if live_g.len() < b.maxg { v.push(Op::NewGuard); }
    for &g in &live_g {
        v.push(Op::DropGuard(g));
        if nobj < b.maxo && live_h.len() < b.maxh { v.push(Op::Alloc(g)); }
        if !m.guards[g as usize].as_ref().map(|r| r.is_empty()).unwrap_or(true) { v.push(Op::Clear(g)); }
        // guard()/unguard() through a stale handle (its object was swept, the slot maybe reused) must be rejected without effect
        for &h in &live_h { v.push(Op::GuardAdd(g, h)); v.push(Op::Unguard(g, h)); }
    }
    for &h in &live_h {
        if live_h.len() < b.maxh { v.push(Op::CloneH(h)); }
        v.push(Op::DropH(h));
        // dereferencing operations only through handles to objects the model says are alive;
        // linking only from reachable objects (an unreachable object may be swept at any time)
        if m.fresh(h) {
            let o = m.handles[h as usize].unwrap_or(0);
            if reach.contains(&o) {
                v.push(Op::SetVal(h));
                for &h2 in &live_h { if m.fresh(h2) { v.push(Op::Link(h, h2)); } }
                if !m.objs[&o].edges.is_empty() { v.push(Op::Unlink(h)); }
            }
        }
    }
    v.push(Op::Collect);
    for t in 0..3u8 { v.push(Op::Thresh(t)); }
    v.push(Op::DropHeap);
    v
}

fn apply(m: &mut Model, im: &mut Impl, op: Op) {
    let before = tsrun::gc::verif::collections();
    match op {
        Op::NewGuard => { let g = im.heap.as_ref().unwrap().create_guard(); put(&mut m.guards, vec![]); put(&mut im.guards, g); }
        Op::DropGuard(g) => { m.guards[g as usize] = None; im.guards[g as usize] = None; }
        Op::Alloc(g) => {
            let h = im.guards[g as usize].as_ref().unwrap().alloc();
            // an automatic collection may have run before the allocation
            if tsrun::gc::verif::collections() != before { m.collect(); }
            let id = m.next_obj; m.next_obj += 1; m.next_val += 1; let val = 100 + m.next_val;
            h.borrow_mut().v = val;
            m.objs.insert(id, MObj { val, edges: vec![], dead: false });
            m.guards[g as usize].as_mut().unwrap().push(id);
            put(&mut m.handles, id); put(&mut im.handles, h);
        }
        Op::GuardAdd(g, h) => { let o = m.handles[h as usize].unwrap(); if m.fresh(h) { m.guards[g as usize].as_mut().unwrap().push(o); }
            im.guards[g as usize].as_ref().unwrap().guard(im.handles[h as usize].as_ref().unwrap().clone()); }
        Op::Unguard(g, h) => { let o = m.handles[h as usize].unwrap(); let stale = !m.fresh(h); let roots = m.guards[g as usize].as_mut().unwrap();
            let expect = if stale { false } else if let Some(p) = roots.iter().position(|&r| r == o) { roots.swap_remove(p); true } else { false };
            let got = im.guards[g as usize].as_ref().unwrap().unguard(im.handles[h as usize].as_ref().unwrap());
            if got != expect { m.next_val = u32::MAX; } // flagged by check via sentinel
        }
        Op::Clear(g) => { m.guards[g as usize].as_mut().unwrap().clear(); im.guards[g as usize].as_ref().unwrap().clear(); }
        Op::CloneH(h) => { let c = im.handles[h as usize].as_ref().unwrap().clone(); let o = m.handles[h as usize].unwrap(); put(&mut m.handles, o); put(&mut im.handles, c); }
        Op::DropH(h) => { m.handles[h as usize] = None; im.handles[h as usize] = None; }
        Op::Link(a, b2) => { let oa = m.handles[a as usize].unwrap(); let ob = m.handles[b2 as usize].unwrap(); m.objs.get_mut(&oa).unwrap().edges.push(ob);
            let hb = im.handles[b2 as usize].as_ref().unwrap().clone(); im.handles[a as usize].as_ref().unwrap().borrow_mut().refs.push(hb); }
        Op::Unlink(a) => { let oa = m.handles[a as usize].unwrap(); m.objs.get_mut(&oa).unwrap().edges.pop(); let x = im.handles[a as usize].as_ref().unwrap().borrow_mut().refs.pop(); drop(x); }
        Op::SetVal(h) => { let o = m.handles[h as usize].unwrap(); m.next_val += 1; let val = 100 + m.next_val; m.objs.get_mut(&o).unwrap().val = val; im.handles[h as usize].as_ref().unwrap().borrow_mut().v = val; }
        Op::Collect => { im.heap.as_ref().unwrap().collect(); m.collect(); }
        Op::Thresh(t) => { im.heap.as_ref().unwrap().set_gc_threshold(t as usize); }
        Op::DropHeap => { im.heap = None; m.heap_dropped = true; }
        Op::Bulk(n, shape) => {
            // deterministic prefix: n objects allocated through guard 0
            if m.guards.is_empty() { let g = im.heap.as_ref().unwrap().create_guard(); put(&mut m.guards, vec![]); put(&mut im.guards, g); }
            let tmp = im.heap.as_ref().unwrap().create_guard();
            let mut hs: Vec<Gc<N>> = vec![]; let mut ids: Vec<u32> = vec![];
            for k in 0..n {
                let garbage = shape == 3 && k > 0;
                let h = if garbage { tmp.alloc() } else { im.guards[0].as_ref().unwrap().alloc() };
                if tsrun::gc::verif::collections() != before { /* thresholds are 0 in prefixes */ }
                let id = m.next_obj; m.next_obj += 1; m.next_val += 1; let val = 100 + m.next_val; h.borrow_mut().v = val;
                m.objs.insert(id, MObj { val, edges: vec![], dead: false });
                if !garbage { m.guards[0].as_mut().unwrap().push(id); }
                hs.push(h); ids.push(id);
            }
            let link = |m: &mut Model, a: usize, b: usize, hs: &Vec<Gc<N>>, ids: &Vec<u32>| { m.objs.get_mut(&ids[a]).unwrap().edges.push(ids[b]); hs[a].borrow_mut().refs.push(hs[b].clone()); };
            let n = n as usize;
            match shape { 0 => for k in 0..n.saturating_sub(1) { link(m, k, k + 1, &hs, &ids); },
                1 => for k in 1..n { link(m, 0, k, &hs, &ids); },
                2 => { for k in 0..n.saturating_sub(1) { link(m, k, k + 1, &hs, &ids); } if n > 1 { link(m, n - 1, 0, &hs, &ids); } },
                _ => {} }
            if shape != 3 && n > 0 {
                // chain/star/cycle: root only the first object, everything else hangs off it
                let g = im.guards[0].as_ref().unwrap(); g.clear(); g.guard(hs[0].clone());
                let r = m.guards[0].as_mut().unwrap(); r.clear(); r.push(ids[0]);
            }
            if n > 0 { put(&mut m.handles, ids[0]); put(&mut im.handles, hs[0].clone()); }
            if n > 1 { put(&mut m.handles, ids[n - 1]); put(&mut im.handles, hs[n - 1].clone()); }
            drop(hs); drop(tmp);
        }
        Op::GuardChurn(n) => { let mut gs = vec![]; for _ in 0..n { gs.push(im.heap.as_ref().unwrap().create_guard()); } for g in &gs { let _ = g.alloc(); let id = m.next_obj; m.next_obj += 1; m.objs.insert(id, MObj { val: 0, edges: vec![], dead: false }); } drop(gs); }
    }
}

fn check(m: &Model, im: &Impl, after_collect: bool) -> Option<String> {
    if m.next_val == u32::MAX { return Some("unguard() return value disagrees with the model".into()); }
    let (stale, ev) = tsrun::gc::verif::stale();
    if stale != 0 { return Some(format!("stale-handle dereference inside the collector API: {:?}", ev)); }
    if m.heap_dropped { return None; }
    let reach = m.reachable();
    for (i, h) in m.handles.iter().enumerate() {
        if let Some(o) = h { if reach.contains(o) {
            let hb = im.handles[i].as_ref().unwrap().borrow(); let mo = &m.objs[o];
            if hb.v != mo.val { return Some(format!("handle {} object {} reads value {} expected {}", i, o, hb.v, mo.val)); }
            if hb.refs.len() != mo.edges.len() { return Some(format!("handle {} object {} has {} links expected {}", i, o, hb.refs.len(), mo.edges.len())); }
            for (k, e) in mo.edges.iter().enumerate() { if reach.contains(e) { let ev = hb.refs[k].borrow().v; if ev != m.objs[e].val { return Some(format!("link {}->{} reads {} expected {}", o, e, ev, m.objs[e].val)); } } }
        } }
    }
    for (i, g) in m.guards.iter().enumerate() { if let Some(r) = g { let l = im.guards[i].as_ref().unwrap().len(); if l != r.len() { return Some(format!("guard {} len {} expected {}", i, l, r.len())); } } }
    if after_collect {
        let heap = im.heap.as_ref().unwrap(); let live = heap.stats().live_objects;
        if live != reach.len() { return Some(format!("live_objects {} after collect, model reachable {}", live, reach.len())); }
        let (slots, free, _g, _n, _t) = heap.verif_dump();
        let unpooled = slots.iter().filter(|s| !s.1).count();
        if unpooled != reach.len() { return Some(format!("{} slots not pooled after collect, model reachable {}", unpooled, reach.len())); }
        let fs: HashSet<usize> = free.iter().cloned().collect();
        if fs.len() != free.len() { return Some("free list contains a slot twice".into()); }
        for s in &slots { if s.1 != fs.contains(&s.0) { return Some(format!("slot {} pooled flag {} but free-list membership {}", s.0, s.1, fs.contains(&s.0))); } }
    }
    None
}

fn canon(m: &Model, im: &Impl) -> String {
    // model: renumber objects by first appearance via handles/guards order (ids are allocation
    // ordinals, already canonical for a given history shape); include impl dump for soundness.
    let dump = match &im.heap { Some(h) => { let (s, f, g, n, t) = h.verif_dump(); format!("{:?}|{:?}|{:?}|{}|{}", s, f, g, n, t) } None => "dropped".into() };
    let hslots: Vec<(usize, u32)> = im.handles.iter().map(|h| h.as_ref().map(|g| g.verif_slot()).unwrap_or((usize::MAX - 1, 0))).collect();
    let objs: Vec<(u32, u32, &Vec<u32>, bool)> = m.objs.iter().map(|(k, o)| (*k, o.val, &o.edges, o.dead)).collect();
    format!("{:?}|{:?}|{:?}|{}|{}|{:?}|{}", m.guards, objs, m.handles, m.next_obj, m.next_val, hslots, dump)
}

fn replay(prefix: &[Op], hist: &[Op]) -> (Model, Impl, Option<(usize, String)>) {
    tsrun::gc::verif::reset();
    let heap: Heap<N> = Heap::new(); heap.set_gc_threshold(0);
    let mut im = Impl { heap: Some(heap), guards: vec![], handles: vec![] }; let mut m = Model::default();
    for &op in prefix { apply(&mut m, &mut im, op); }
    if !prefix.is_empty() { if let Some(e) = check(&m, &im, false) { return (m, im, Some((0, format!("in prefix: {}", e)))); } }
    for (k, &op) in hist.iter().enumerate() {
        let before = tsrun::gc::verif::collections();
        apply(&mut m, &mut im, op);
        let collected = tsrun::gc::verif::collections() != before;
        if let Some(e) = check(&m, &im, collected && !m.heap_dropped) { return (m, im, Some((k, e))); }
    }
    (m, im, None)
}

pub struct Outcome { pub states: u64, pub transitions: u64, pub replays: u64, pub max_depth: usize, pub per_depth: Vec<u64>, pub violations: Vec<(Vec<Op>, Vec<Op>, String)>, pub blocked: u64, pub capped: bool, pub outcomes: usize }

pub fn explore(prefix: &[Op], depth: usize, b: &Bounds, cap: u64) -> Outcome {
    let mut seen: HashSet<String> = HashSet::new();
    let mut frontier: Vec<Vec<Op>> = vec![vec![]];
    let (m0, i0, e0) = replay(prefix, &[]);
    let mut out = Outcome { states: 0, transitions: 0, replays: 1, max_depth: 0, per_depth: vec![], violations: vec![], blocked: 0, capped: false, outcomes: 0 };
    if let Some((_, e)) = e0 { out.violations.push((prefix.to_vec(), vec![], e)); return out; }
    seen.insert(canon(&m0, &i0)); drop(i0);
    let mut livecounts: HashSet<(usize, usize)> = HashSet::new();
    for d in 0..depth {
        let mut next: Vec<Vec<Op>> = vec![];
        for h in &frontier {
            let (m, im, _) = replay(prefix, h); out.replays += 1; drop(im);
            for op in enabled(&m, b) {
                let mut h2 = h.clone(); h2.push(op); out.transitions += 1;
                let (m2, i2, err) = replay(prefix, &h2); out.replays += 1;
                if let Some((_, e)) = err { // violating edge: prefix h agreed, h+op does not; extensions are blocked
                    if out.violations.len() < 200 { out.violations.push((prefix.to_vec(), h2.clone(), e)); } out.blocked += 1; continue; }
                if let Some(hp) = &i2.heap { let st = hp.stats(); livecounts.insert((st.live_objects, st.pooled_objects)); }
                let k = canon(&m2, &i2); drop(i2);
                if seen.insert(k) { out.max_depth = d + 1; next.push(h2); }
            }
        }
        out.per_depth.push(next.len() as u64);
        frontier = next;
        if seen.len() as u64 > cap { out.capped = true; break; }
        if frontier.is_empty() { break; }
    }
    out.states = seen.len() as u64; out.outcomes = livecounts.len();
    out
}

pub fn parse_ops(v: &serde_json::Value) -> Vec<Op> {
    v.as_array().map(|a| a.iter().filter_map(|x| {
        let s = x.as_str()?; let (name, args) = match s.find('(') { Some(i) => (&s[..i], s[i + 1..].trim_end_matches(')')), None => (s, "") };
        let a: Vec<u32> = args.split(',').filter(|t| !t.trim().is_empty()).filter_map(|t| t.trim().parse().ok()).collect();
        let g = |i: usize| a.get(i).cloned().unwrap_or(0);
        Some(match name { "NewGuard" => Op::NewGuard, "DropGuard" => Op::DropGuard(g(0) as u8), "Alloc" => Op::Alloc(g(0) as u8), "GuardAdd" => Op::GuardAdd(g(0) as u8, g(1) as u8),
            "Unguard" => Op::Unguard(g(0) as u8, g(1) as u8), "Clear" => Op::Clear(g(0) as u8), "CloneH" => Op::CloneH(g(0) as u8), "DropH" => Op::DropH(g(0) as u8),
            "Link" => Op::Link(g(0) as u8, g(1) as u8), "Unlink" => Op::Unlink(g(0) as u8), "SetVal" => Op::SetVal(g(0) as u8), "Collect" => Op::Collect, "Thresh" => Op::Thresh(g(0) as u8),
            "DropHeap" => Op::DropHeap, "Bulk" => Op::Bulk(g(0) as u16, g(1) as u8), "GuardChurn" => Op::GuardChurn(g(0) as u8), _ => return None })
    }).collect()).unwrap_or_default()
}
fn ops_json(v: &[Op]) -> Vec<String> { v.iter().map(|o| format!("{:?}", o)).collect() }

/// tvh c13 explore <depth> <maxg> <maxh> <maxo> <cap> [prefix-json]
/// tvh c13 replay <json {prefix:[..],history:[..]}>
pub fn main(args: &[String]) {
    let mode = args.first().map(|s| s.as_str()).unwrap_or("explore");
    if mode == "replay" {
        let v: serde_json::Value = serde_json::from_str(args.get(1).map(|s| s.as_str()).unwrap_or("{}")).unwrap_or_default();
        let prefix = parse_ops(&v["prefix"]); let hist = parse_ops(&v["history"]);
        let r1 = replay(&prefix, &hist).2; let r2 = replay(&prefix, &hist).2;
        println!("{}", serde_json::json!({"violation": r1.as_ref().map(|x| x.1.clone()), "at": r1.as_ref().map(|x| x.0), "deterministic": r1 == r2}));
        return;
    }
    let n = |i: usize, d: u64| args.get(i).and_then(|s| s.parse::<u64>().ok()).unwrap_or(d);
    let depth = n(1, 5) as usize; let b = Bounds { maxg: n(2, 2) as usize, maxh: n(3, 4) as usize, maxo: n(4, 3) as u32 }; let cap = n(5, 3_000_000);
    let prefix = args.get(6).map(|s| parse_ops(&serde_json::from_str(s).unwrap_or_default())).unwrap_or_default();
    let o = explore(&prefix, depth, &b, cap);
    let viol: Vec<serde_json::Value> = o.violations.iter().map(|(p, h, e)| serde_json::json!({"prefix": ops_json(p), "history": ops_json(h), "error": e})).collect();
    println!("{}", serde_json::json!({"states": o.states, "transitions": o.transitions, "replays": o.replays, "max_depth": o.max_depth, "per_depth": o.per_depth,
        "violations": viol, "blocked_edges": o.blocked, "capped": o.capped, "distinct_outcomes": o.outcomes, "depth_bound": depth, "prefix": ops_json(&prefix)}));
}
