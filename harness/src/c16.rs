//! C16 — JSON boundary round trips. JSONL {id, text} on stdin; for every document the JSON text is pushed
//! through each path and the resulting JSON text (or error class) is reported; the orchestrator compares
//! with its own strict parser.
//!   h2h   host -> create_from_json -> js_value_to_json -> host
//!   h2s   host -> create_from_json -> global -> script JSON.stringify -> text
//!   resp  host -> create_response_object -> order response -> script -> Complete value -> js_value_to_json
//!   t2t   script JSON.stringify(JSON.parse(text))            (text embedded as a string literal)
//!   ind2  script JSON.stringify(JSON.parse(text), null, 2)   indentT: with "\t"
//!   t2h   script JSON.parse(text) -> Complete value -> js_value_to_json
//!   t2w / h2w   as t2t / h2s, but the script first rebuilds the value by reading every member through
//!               property access (v[key], v[i]) - what a program that *uses* the data does
use crate::common::*;
use std::io::{BufRead, Write};
use tsrun::{api, js_value_to_json, JsValue, OrderResponse, StepResult};

fn js_string_literal(s: &str) -> String {
    let mut o = String::from("\"");
    for ch in s.chars() {
        match ch {
            '"' => o.push_str("\\\""), '\\' => o.push_str("\\\\"), '\n' => o.push_str("\\n"), '\r' => o.push_str("\\r"),
            '\u{2028}' => o.push_str("\\u2028"), '\u{2029}' => o.push_str("\\u2029"),
            c if (c as u32) < 0x20 => o.push_str(&format!("\\x{:02x}", c as u32)),
            c => o.push(c),
        }
    }
    o.push('"');
    o
}

const WALK: &str = "function __walk(v){ if (Array.isArray(v)) { var a=[]; for (var i=0;i<v.length;i++) a.push(__walk(v[i])); return a; } if (v!==null && typeof v==='object') { var o={}; var ks=Object.keys(v); for (var j=0;j<ks.length;j++) { var k=ks[j]; Object.defineProperty(o,k,{value:__walk(v[k]),enumerable:true,writable:true,configurable:true}); } return o; } return v; }\n";

fn run_script(i: &mut tsrun::Interpreter, src: &str) -> Result<tsrun::RuntimeValue, String> {
    let mut r = i.prepare(src, None);
    let mut n = 0u64;
    loop {
        match r {
            Ok(StepResult::Continue) => { n += 1; if n > 5_000_000 { return Err("budget".into()); } r = i.step(); }
            Ok(StepResult::Complete(v)) => return Ok(v),
            Ok(StepResult::Suspended { pending, .. }) => { return Err(format!("suspended:{}", pending.len())); }
            Ok(_) => return Err("other".into()),
            Err(e) => return Err(format!("err:{}", errclass(&e))),
        }
    }
}

fn text_of(v: &tsrun::RuntimeValue) -> Result<String, String> {
    match v.value() { JsValue::String(s) => Ok(s.as_str().to_string()), JsValue::Undefined => Ok("undefined".into()), other => Err(format!("nonstring:{}", show(other))) }
}

fn one(text: &str, only: &str) -> serde_json::Value {
    let mut out = serde_json::Map::new();
    let want = |p: &str| only.is_empty() || only.split(',').any(|x| x == p);
    let parsed: Result<serde_json::Value, _> = serde_json::from_str(text);
    // host paths need a host-side value
    if let Ok(doc) = &parsed {
        if want("h2h") {
            let r = std::panic::catch_unwind(|| { let (mut i, _l) = new_interp(); let g = api::create_guard(&i);
                match api::create_from_json(&mut i, &g, doc) { Ok(v) => match js_value_to_json(&v) { Ok(j) => j.to_string(), Err(e) => format!("!err:{}", errclass(&e)) }, Err(e) => format!("!err:{}", errclass(&e)) } });
            out.insert("h2h".into(), r.unwrap_or_else(|_| "!panic".into()).into());
        }
        if want("h2s") {
            let r = std::panic::catch_unwind(|| { let (mut i, _l) = new_interp(); i.set_gc_threshold(1); let g = api::create_guard(&i);
                match api::create_from_json(&mut i, &g, doc) { Ok(v) => { let name = i.intern("__doc"); i.env_define(name, v, false);
                    match run_script(&mut i, "JSON.stringify(__doc)") { Ok(v) => text_of(&v).unwrap_or_else(|e| format!("!{}", e)), Err(e) => format!("!{}", e) } }, Err(e) => format!("!err:{}", errclass(&e)) } });
            out.insert("h2s".into(), r.unwrap_or_else(|_| "!panic".into()).into());
        }
        if want("h2w") {
            let r = std::panic::catch_unwind(|| { let (mut i, _l) = new_interp(); i.set_gc_threshold(1); let g = api::create_guard(&i);
                match api::create_from_json(&mut i, &g, doc) { Ok(v) => { let name = i.intern("__doc"); i.env_define(name, v, false);
                    match run_script(&mut i, &format!("{}JSON.stringify(__walk(__doc))", WALK)) { Ok(v) => text_of(&v).unwrap_or_else(|e| format!("!{}", e)), Err(e) => format!("!{}", e) } }, Err(e) => format!("!err:{}", errclass(&e)) } });
            out.insert("h2w".into(), r.unwrap_or_else(|_| "!panic".into()).into());
        }
        if want("resp") {
            let r = std::panic::catch_unwind(|| { let (mut i, _l) = new_interp(); i.set_gc_threshold(1);
                let mut r = i.prepare("import { order } from 'tsrun:host'; const r = await order('x'); ({ got: r })", None); let mut n = 0u64;
                loop { match r { Ok(StepResult::Continue) => { n += 1; if n > 1_000_000 { return "!budget".to_string(); } r = i.step(); }
                    Ok(StepResult::Suspended { pending, .. }) => { if pending.is_empty() { return "!stuck".into(); }
                        let rv = match api::create_response_object(&mut i, doc) { Ok(v) => v, Err(e) => return format!("!err:{}", errclass(&e)) };
                        i.fulfill_orders(vec![OrderResponse { id: pending[0].id, result: Ok(rv) }]); i.collect(); r = i.step(); }
                    Ok(StepResult::Complete(v)) => { return match js_value_to_json(v.value()) { Ok(j) => j.get("got").map(|g| g.to_string()).unwrap_or("!nogot".into()), Err(e) => format!("!err:{}", errclass(&e)) }; }
                    Ok(_) => return "!other".into(), Err(e) => return format!("!err:{}", errclass(&e)) } } });
            out.insert("resp".into(), r.unwrap_or_else(|_| "!panic".into()).into());
        }
    } else {
        out.insert("host_parse".into(), "refused-by-serde".into());
    }
    let lit = js_string_literal(text);
    for (name, prog) in [("t2t", format!("JSON.stringify(JSON.parse({}))", lit)), ("t2w", format!("{}JSON.stringify(__walk(JSON.parse({})))", WALK, lit)), ("ind2", format!("JSON.stringify(JSON.parse({}), null, 2)", lit)), ("indT", format!("JSON.stringify(JSON.parse({}), null, '\\t')", lit))] {
        if !want(name) { continue; }
        let p2 = prog.clone();
        let r = std::panic::catch_unwind(move || { let (mut i, _l) = new_interp(); i.set_gc_threshold(1); match run_script(&mut i, &p2) { Ok(v) => text_of(&v).unwrap_or_else(|e| format!("!{}", e)), Err(e) => format!("!{}", e) } });
        out.insert(name.into(), r.unwrap_or_else(|_| "!panic".into()).into());
    }
    if want("t2h") {
        let prog = format!("JSON.parse({})", lit);
        let r = std::panic::catch_unwind(move || { let (mut i, _l) = new_interp(); match run_script(&mut i, &prog) { Ok(v) => match js_value_to_json(v.value()) { Ok(j) => j.to_string(), Err(e) => format!("!err:{}", errclass(&e)) }, Err(e) => format!("!{}", e) } });
        out.insert("t2h".into(), r.unwrap_or_else(|_| "!panic".into()).into());
    }
    serde_json::Value::Object(out)
}

pub fn main(args: &[String]) {
    let only = args.first().cloned().unwrap_or_default();
    let stdin = std::io::stdin(); let stdout = std::io::stdout(); let mut out = stdout.lock();
    for line in stdin.lock().lines() {
        let Ok(line) = line else { break }; if line.trim().is_empty() { continue; }
        let v: serde_json::Value = match serde_json::from_str(&line) { Ok(v) => v, Err(_) => continue };
        let id = v.get("id").cloned().unwrap_or_default(); let text = v.get("text").and_then(|x| x.as_str()).unwrap_or("").to_string();
        let only2 = v.get("only").and_then(|x| x.as_str()).map(|s| s.to_string()).unwrap_or(only.clone());
        let _ = writeln!(out, "BEGIN {}", id); let _ = out.flush();
        let mut r = one(&text, &only2);
        r["id"] = id; r["status"] = "ok".into();
        let _ = writeln!(out, "{}", r); let _ = out.flush();
    }
}
