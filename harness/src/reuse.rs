//! C11 — reuse of one interpreter after failed / abandoned runs.
//! Input JSONL: {id, prefix:[{src,path?,modules?,stop?}], a:{src,path?,modules?}, observers:[{name,src,path?,modules?}], stride?}
//! For every crash point k (0..=steps(a), by `stride`) and for a's natural end: fresh interpreter, run the
//! prefix runs (each abandoned after `stop` steps or run to its end), run `a` for k steps and abandon it, then
//! run each observer on the same interpreter and compare with the observer on a fresh interpreter.
use crate::common::*;
use std::io::{BufRead, Write};
use tsrun::{Interpreter, JsValue, ModulePath, OrderResponse, RuntimeValue, StepResult};

struct Prog { src: String, path: Option<String>, modules: Vec<(String, String)>, eval_entry: bool }
fn prog(v: &serde_json::Value) -> Prog {
    Prog { eval_entry: v.get("entry").and_then(|x| x.as_str()) == Some("eval"), src: v.get("src").and_then(|x| x.as_str()).unwrap_or("").to_string(), path: v.get("path").and_then(|x| x.as_str()).map(|s| s.to_string()),
        modules: v.get("modules").and_then(|x| x.as_array()).map(|a| a.iter().filter_map(|m| { let m = m.as_array()?; Some((m.first()?.as_str()?.to_string(), m.get(1)?.as_str()?.to_string())) }).collect()).unwrap_or_default() }
}

/// Run `p` for at most `limit` host steps (None = to its end). Returns (observation, steps used, ended).
fn run_limited(i: &mut Interpreter, log: &Log, p: &Prog, limit: Option<u64>) -> (String, u64, bool) {
    log.borrow_mut().clear();
    // entry point: prepare() + step(), or eval() (which runs to the first suspension by itself) continued with step()
    let mp = p.path.as_ref().map(|s| ModulePath::new(s.as_str()));
    let mut r = if p.eval_entry { i.eval(&p.src, mp) } else { i.prepare(&p.src, mp) };
    let mut n = 0u64;
    loop {
        // (a result that already ends the run is reported as such: there is nothing left to abandon)
        let terminal = matches!(r, Ok(StepResult::Complete(_)) | Ok(StepResult::Done) | Err(_));
        if let Some(l) = limit { if n >= l && !terminal { return (format!("abandoned@{}", n), n, false); } }
        match r {
            Ok(StepResult::Continue) => { n += 1; if n > 300_000 { return ("budget".into(), n, true); } r = i.step(); }
            Ok(StepResult::Complete(v)) => { let mut names = tsrun::api::get_export_names(i); names.sort();
                return (format!("ok|{}|{:?}|exports{:?}", show(v.value()), log.borrow(), names), n, true); }
            Ok(StepResult::NeedImports(reqs)) => { n += 1; let mut did = false;
                for q in &reqs { if let Some((_, src)) = p.modules.iter().find(|(pa, _)| pa == q.resolved_path.as_str()) { if let Err(e) = i.provide_module(q.resolved_path.clone(), src) { return (format!("err|{}|{:?}", errclass(&e), log.borrow()), n, true); } did = true; } }
                if !did { return (format!("need|{:?}", reqs.iter().map(|q| q.resolved_path.as_str().to_string()).collect::<Vec<_>>()), n, true); }
                r = i.step(); }
            Ok(StepResult::Suspended { pending, .. }) => { n += 1; if pending.is_empty() { return (format!("stuck|{:?}", log.borrow()), n, true); }
                i.fulfill_orders(pending.iter().map(|x| OrderResponse { id: x.id, result: Ok(RuntimeValue::unguarded(JsValue::from("resp"))) }).collect()); r = i.step(); }
            Ok(StepResult::Done) => return (format!("done|{:?}", log.borrow()), n, true),
            Err(e) => return (format!("err|{}|{:?}", errclass(&e), log.borrow()), n, true),
        }
    }
}

pub fn case(v: &serde_json::Value) -> serde_json::Value {
    let prefix: Vec<(Prog, Option<u64>)> = v.get("prefix").and_then(|x| x.as_array()).map(|a| a.iter().map(|p| (prog(p), p.get("stop").and_then(|s| s.as_u64()))).collect()).unwrap_or_default();
    let a = prog(&v["a"]);
    // observers that are only meaningful when A did not run to its end (a completed main module is, by design, loaded)
    let skip_done: Vec<bool> = v.get("observers").and_then(|x| x.as_array()).map(|arr| arr.iter().map(|o| o.get("skip_if_a_completed").and_then(|b| b.as_bool()).unwrap_or(false)).collect()).unwrap_or_default();
    let observers: Vec<(String, Prog)> = v.get("observers").and_then(|x| x.as_array()).map(|arr| arr.iter().map(|o| (o.get("name").and_then(|n| n.as_str()).unwrap_or("?").to_string(), prog(o))).collect()).unwrap_or_default();
    let stride = v.get("stride").and_then(|x| x.as_u64()).unwrap_or(1).max(1);
    // fresh-interpreter expectations
    let mut fresh: Vec<(String, String, usize)> = vec![];
    for (_, o) in &observers { let (mut i, log) = new_interp(); let (obs, _, _) = run_limited(&mut i, &log, o, None); fresh.push((obs, i.verif_summary(), i.call_depth())); }
    // length of a
    let mut prefix_completed = false;
    let (a_end, a_steps) = { let (mut i, log) = new_interp(); for (p, stop) in &prefix { let (pobs, _, ended) = run_limited(&mut i, &log, p, *stop); if ended && pobs.starts_with("ok") { prefix_completed = true; } } let (obs, n, _) = run_limited(&mut i, &log, &a, None); (obs, n) };
    let mut points: Vec<Option<u64>> = (0..=a_steps).step_by(stride as usize).map(Some).collect();
    points.push(None);
    let mut runs = 0u64; let mut bad: Vec<serde_json::Value> = vec![]; let mut nbad = 0u64; let mut distinct_a = std::collections::HashSet::new();
    for k in &points {
        for (oi, (oname, o)) in observers.iter().enumerate() {
            if skip_done.get(oi).copied().unwrap_or(false) && (prefix_completed || ((k.is_none() || *k >= Some(a_steps)) && a_end.starts_with("ok"))) { continue; }
            let r = std::panic::catch_unwind(|| {
                let (mut i, log) = new_interp();
                for (p, stop) in &prefix { run_limited(&mut i, &log, p, *stop); }
                let (aobs, _, _) = run_limited(&mut i, &log, &a, *k);
                let (obs, _, _) = run_limited(&mut i, &log, o, None);
                (aobs, obs, i.verif_summary(), i.call_depth())
            });
            runs += 1;
            match r {
                Err(_) => { nbad += 1; if bad.len() < 12 { bad.push(serde_json::json!({"k": k, "observer": oname, "what": "panic"})); } }
                Ok((aobs, obs, summary, depth)) => {
                    distinct_a.insert(aobs.chars().take(12).collect::<String>());
                    let (fobs, fsum, fdepth) = &fresh[oi];
                    let mut what = vec![];
                    if &obs != fobs { what.push(format!("observer result {} (fresh interpreter: {})", obs.chars().take(120).collect::<String>(), fobs.chars().take(120).collect::<String>())); }
                    if depth != *fdepth { what.push(format!("call_depth() {} after the observer completed (fresh: {})", depth, fdepth)); }
                    if &summary != fsum { what.push(format!("quiescent state differs: {} (fresh: {})", diff_summary(&summary, fsum), "")); }
                    if !what.is_empty() { nbad += 1; if bad.len() < 12 { bad.push(serde_json::json!({"k": k, "observer": oname, "a_state": aobs.chars().take(60).collect::<String>(), "what": what.join("; ")})); } }
                }
            }
        }
    }
    serde_json::json!({"status": "ok", "a_steps": a_steps, "a_end": a_end.chars().take(80).collect::<String>(), "runs": runs, "nbad": nbad, "bad": bad, "crash_points": points.len(), "a_outcomes": distinct_a.len()})
}

fn diff_summary(a: &str, b: &str) -> String {
    a.split(' ').zip(b.split(' ')).filter(|(x, y)| x != y).map(|(x, y)| format!("{} (fresh {})", x, y.split('=').nth(1).unwrap_or(""))).collect::<Vec<_>>().join(", ")
}

pub fn main(_args: &[String]) {
    let stdin = std::io::stdin(); let stdout = std::io::stdout(); let mut out = stdout.lock();
    for line in stdin.lock().lines() {
        let Ok(line) = line else { break }; if line.trim().is_empty() { continue; }
        let v: serde_json::Value = match serde_json::from_str(&line) { Ok(v) => v, Err(_) => continue };
        let id = v.get("id").cloned().unwrap_or(serde_json::Value::Null);
        let _ = writeln!(out, "BEGIN {}", id); let _ = out.flush();
        let mut j = case(&v); j["id"] = id;
        let _ = writeln!(out, "{}", j); let _ = out.flush();
    }
}
