//! C18 — exhaustive enumeration of (specifier, importer) pairs over a 7-symbol segment alphabet,
//! compared with an independent split/stack reference.
use std::collections::HashSet;
use tsrun::ModulePath;

const SEGS: [&str; 7] = ["", ".", "..", "a", "b", "..a", "a.ts"];

fn paths(maxlen: usize) -> Vec<String> {
    let mut out: Vec<String> = vec![]; let mut seen = HashSet::new();
    let mut cur: Vec<Vec<usize>> = vec![vec![]];
    for len in 0..=maxlen {
        for seq in &cur {
            let body: Vec<&str> = seq.iter().map(|&i| SEGS[i]).collect(); let j = body.join("/");
            for (lead, trail) in [(false, false), (true, false), (false, true), (true, true)] {
                if len == 0 && trail { continue; }
                let s = format!("{}{}{}", if lead { "/" } else { "" }, j, if trail { "/" } else { "" });
                if seen.insert(s.clone()) { out.push(s); }
            }
        }
        if len == maxlen { break; }
        let mut nx = vec![]; for seq in &cur { for i in 0..SEGS.len() { let mut s = seq.clone(); s.push(i); nx.push(s); } } cur = nx;
    }
    out
}

/// Independent reference: directory of the importer = text before its last '/', join, then a
/// stack walk that clamps '..' at the root.
fn reference(spec: &str, imp: &str) -> String {
    let joined = if spec.starts_with('/') { spec.to_string() } else { let dir = match imp.rfind('/') { Some(i) => &imp[..i], None => "" }; format!("{}/{}", dir, spec) };
    let mut st: Vec<&str> = vec![];
    for seg in joined.split('/') { if seg.is_empty() || seg == "." { continue; } if seg == ".." { st.pop(); continue; } st.push(seg); }
    format!("/{}", st.join("/"))
}
fn is_relative(s: &str) -> bool { s.starts_with("./") || s.starts_with("../") }

pub fn main(args: &[String]) {
    let n = |i: usize, d: usize| args.get(i).and_then(|s| s.parse::<usize>().ok()).unwrap_or(d);
    let (maxspec, maximp, shard, nshards) = (n(0, 3), n(1, 2), n(2, 0), n(3, 1));
    let total_mode = args.get(4).map(|s| s == "total").unwrap_or(false); // bound len(spec)+len(imp) <= maxspec
    let specs = paths(maxspec); let imps = paths(maximp);
    let seglen = |s: &str| -> usize { let t = s.trim_start_matches('/').trim_end_matches('/'); if t.is_empty() && s.len() <= 1 { 0 } else { t.split('/').count() } };
    let mut pairs: u64 = 0; let mut full: u64 = 0; let mut bare: u64 = 0; let mut skipped: u64 = 0; let mut undefined_base: u64 = 0;
    let mut viol: Vec<serde_json::Value> = vec![]; let mut nviol: u64 = 0; let mut results: HashSet<String> = HashSet::new();
    let push = |viol: &mut Vec<serde_json::Value>, nviol: &mut u64, kind: &str, spec: &str, imp: Option<&str>, got: &str, want: &str| { *nviol += 1; if viol.len() < 300 { viol.push(serde_json::json!({"kind":kind,"spec":spec,"importer":imp,"got":got,"want":want})); } };
    // importers sorted by segment count so that the "total length" bound is a prefix of the list
    let mut imps = imps; imps.sort_by_key(|s| seglen(s));
    let mut upto: Vec<usize> = vec![0; maxspec.max(maximp) + 2];
    for (k, i) in imps.iter().enumerate() { let l = seglen(i); for u in upto.iter_mut().skip(l) { *u = k + 1; } }
    for (si, spec) in specs.iter().enumerate() {
        if si % nshards != shard { continue; }
        let sl = seglen(spec);
        let lim = if total_mode { if sl > maxspec { 0 } else { upto[(maxspec - sl).min(upto.len() - 1)] } } else { imps.len() };
        for imp in imps[..lim].iter().map(|s| Some(s.as_str())).chain(std::iter::once(None)) {
            pairs += 1;
            let base = imp.map(ModulePath::new);
            let got = match std::panic::catch_unwind(|| ModulePath::resolve(spec, base.as_ref()).as_str().to_string()) { Ok(g) => g, Err(_) => { push(&mut viol, &mut nviol, "panic", spec, imp, "panic", ""); continue; } };
            if spec == "." || spec == ".." { skipped += 1; continue; } // not classified by the statement
            if !spec.starts_with('/') && !is_relative(spec) { bare += 1; if got != *spec { push(&mut viol, &mut nviol, "bare-not-passed-through", spec, imp, &got, spec); } continue; }
            let abs_imp = imp.map(|i| i.starts_with('/')).unwrap_or(false);
            if !spec.starts_with('/') && !abs_imp { undefined_base += 1; continue; } // relative specifier without an absolute importer: no defined result
            full += 1;
            let want = reference(spec, imp.unwrap_or(""));
            if got != want { push(&mut viol, &mut nviol, "differs-from-join-and-normalise", spec, imp, &got, &want); continue; }
            results.insert(got.clone());
            // invariants stated separately by the property
            let bad_seg = got.len() > 1 && got[1..].split('/').any(|s| s.is_empty() || s == "." || s == "..");
            if !got.starts_with('/') || bad_seg || (got.len() > 1 && got.ends_with('/')) { push(&mut viol, &mut nviol, "not-canonical", spec, imp, &got, &want); }
            let again = ModulePath::resolve(&got, base.as_ref()).as_str().to_string();
            if again != got { push(&mut viol, &mut nviol, "not-idempotent", spec, imp, &again, &got); }
        }
    }
    println!("{}", serde_json::json!({"pairs":pairs,"compared_full":full,"bare":bare,"skipped_dot_specs":skipped,"undefined_base":undefined_base,"violations":viol,"nviol":nviol,
        "distinct_results":results.len(),"specs":specs.len(),"importers":imps.len()+1,"sample_specs":specs.iter().skip(specs.len()/2).take(4).collect::<Vec<_>>()}));
}
