//! C19 — all ways of running a program agree. One observation string per entry point:
//!   eval | prepare+step | step with interleaved host reads | C API run | C API step
//! and per module role: provided dependency vs registered internal source module (vs main module exports).
use crate::capi::*;
use crate::common::*;
use std::cell::RefCell;
use std::io::{BufRead, Write};
use std::ffi::{c_char, c_void};
use tsrun::{api, InternalModule, Interpreter, JsError, ModulePath, StepResult};

fn exports_of(i: &Interpreter) -> String {
    let mut names = api::get_export_names(i); names.sort();
    names.iter().map(|n| format!("{}={}", n, api::get_export(i, n).map(|v| show(&v)).unwrap_or("-".into()))).collect::<Vec<_>>().join(",")
}
fn fmt(o: &Obs, exports: String) -> String { format!("{}|{}|{}|{:?}|{:?}|exports[{}]", o.status, o.value, o.err, o.log, o.trace, exports) }

fn rust_entry(src: &str, path: &Option<String>, modules: &[(String, String)], mode: u8) -> String {
    let (mut i, log) = new_interp();
    let p = Policy { modules: modules.to_vec(), path: path.clone(), budget: 300_000, ..Default::default() };
    let mp = path.as_ref().map(|s| ModulePath::new(s.as_str()));
    // programs that wait for a promise of the host's (global `hostP`): it is still pending when the program
    // first awaits it and is resolved when the run reports Suspended with nothing else to answer
    let mut hp: Option<tsrun::RuntimeValue> = None;
    if src.contains("hostP") {
        let pr = api::create_promise(&mut i);
        let _ = api::set_property(&tsrun::JsValue::Object(i.global.clone()), "hostP", pr.value().clone());
        hp = Some(pr);
    }
    let first: Result<StepResult, JsError> = if mode == 0 { i.eval(src, mp) } else { i.prepare(src, mp) };
    let defer = src.contains("/*defer*/");
    let o = if mode == 2 || hp.is_some() || defer { drive_with_reads(&mut i, &log, first, &p, mode == 2, &mut hp, defer) } else { drive(&mut i, &log, first, &p) };
    fmt(&o, exports_of(&i))
}

/// like common::drive, but the host reads state between steps (must not disturb anything)
fn drive_with_reads(i: &mut Interpreter, log: &Log, first: Result<StepResult, JsError>, p: &Policy, reads: bool, hp: &mut Option<tsrun::RuntimeValue>, defer: bool) -> Obs {
    // reuse drive() one host-visible result at a time by stepping manually
    let mut o = Obs::default(); let mut r = first; let mut n = 0u64;
    let mut settled: Vec<tsrun::RuntimeValue> = vec![];
    let mut deferred: Vec<(u64, tsrun::RuntimeValue)> = vec![];
    loop {
        if reads { let _ = (i.call_depth(), i.gc_stats().live_objects, api::get_export_names(i).len()); }
        match r {
            Ok(StepResult::Continue) => { n += 1; if n > p.budget { o.status = "budget".into(); break; } if reads && n % 7 == 0 { i.collect(); } r = i.step(); }
            Ok(StepResult::Suspended { ref pending, ref cancelled }) if defer && (!pending.is_empty() || !deferred.is_empty()) => {
                o.trace.push(format!("Susp({:?},{:?})", pending.iter().map(|x| x.id.0).collect::<Vec<_>>(), cancelled.iter().map(|x| x.0).collect::<Vec<_>>()));
                if pending.is_empty() {
                    let (id, pr) = deferred.remove(0);
                    let _ = api::resolve_promise(i, &pr, tsrun::RuntimeValue::unguarded(tsrun::JsValue::from(format!("p{}", id)))); settled.push(pr);
                } else {
                    let mut resp = vec![];
                    for x in pending.iter() { let pr = api::create_order_promise(i, x.id); resp.push(tsrun::OrderResponse { id: x.id, result: Ok(tsrun::RuntimeValue::unguarded(pr.value().clone())) }); deferred.push((x.id.0, pr)); }
                    i.fulfill_orders(resp);
                }
                r = i.step();
            }
            Ok(StepResult::Suspended { ref pending, .. }) if pending.is_empty() && hp.is_some() => {
                o.trace.push("Susp([],hostP)".into());
                if let Some(pr) = hp.take() { let _ = api::resolve_promise(i, &pr, tsrun::RuntimeValue::unguarded(tsrun::JsValue::from("HP"))); settled.push(pr); }
                r = i.step();
            }
            other => { let o2 = drive_one(i, log, other, p, &mut o); match o2 { Some(next) => r = next, None => break } }
        }
    }
    o.steps = n; o.log = log.borrow().clone(); o
}
fn drive_one(i: &mut Interpreter, _log: &Log, r: Result<StepResult, JsError>, p: &Policy, o: &mut Obs) -> Option<Result<StepResult, JsError>> {
    use tsrun::{JsValue, OrderResponse, RuntimeValue};
    match r {
        Ok(StepResult::Continue) => Some(i.step()),
        Ok(StepResult::Complete(v)) => { o.status = "ok".into(); o.value = show(v.value()); None }
        Ok(StepResult::NeedImports(reqs)) => {
            o.trace.push(format!("Need{:?}", reqs.iter().map(|q| format!("{}<-{}", q.resolved_path.as_str(), q.importer.as_ref().map(|p| p.as_str().to_string()).unwrap_or("-".into()))).collect::<Vec<_>>()));
            let mut did = false;
            for q in &reqs { if let Some((_, src)) = p.modules.iter().find(|(pa, _)| pa == q.resolved_path.as_str()) { if let Err(e) = i.provide_module(q.resolved_path.clone(), src) { o.status = "err".into(); o.err = errclass(&e); return None; } did = true; } }
            if !did { o.status = "need".into(); return None; }
            Some(i.step())
        }
        Ok(StepResult::Suspended { pending, cancelled }) => {
            o.trace.push(format!("Susp({:?},{:?})", pending.iter().map(|x| x.id.0).collect::<Vec<_>>(), cancelled.iter().map(|x| x.0).collect::<Vec<_>>()));
            if pending.is_empty() { o.status = "stuck".into(); return None; }
            i.fulfill_orders(pending.iter().map(|x| OrderResponse { id: x.id, result: Ok(RuntimeValue::unguarded(JsValue::from(format!("v{}", x.id.0)))) }).collect());
            Some(i.step())
        }
        Ok(StepResult::Done) => { o.status = "done".into(); None }
        Err(e) => { o.status = "err".into(); o.err = errclass(&e); o.msg = errmsg(&e); None }
    }
}

thread_local! { static CLOG: RefCell<Vec<String>> = const { RefCell::new(Vec::new()) }; }
extern "C" fn console_cb(_level: i32, message: *const c_char, len: usize, _ud: *mut c_void) {
    let s = unsafe { std::slice::from_raw_parts(message as *const u8, len) };
    CLOG.with(|l| l.borrow_mut().push(String::from_utf8_lossy(s).to_string()));
}
unsafe fn cshow(ctx: *mut TsRunContext, v: *mut TsRunValue) -> String {
    if v.is_null() { return "NULLVALUE".into(); }
    match tsrun_typeof(v) {
        TSRUN_TYPE_UNDEFINED => "undefined".into(), TSRUN_TYPE_NULL => "null".into(), TSRUN_TYPE_BOOLEAN => format!("{}", tsrun_get_bool(v)),
        TSRUN_TYPE_NUMBER => shownum(tsrun_get_number(v)), TSRUN_TYPE_STRING => format!("s:{}", rs(tsrun_get_string(v)).unwrap_or_else(|e| format!("<{}>", e))),
        TSRUN_TYPE_SYMBOL => "symbol".into(),
        _ if tsrun_is_function(v) => "fn".into(),
        _ => { let j = tsrun_json_stringify(ctx, v); if j.is_null() { "o:?".into() } else { let s = rs(j).unwrap_or("?".into()); tsrun_free_string(j); format!("o:{}", s) } }
    }
}
fn errclass_from_msg(m: &str) -> String { m.split(':').next().unwrap_or("").trim().to_string() }

fn c_entry(src: &str, path: &Option<String>, modules: &[(String, String)], stepwise: bool) -> String {
    unsafe {
        CLOG.with(|l| l.borrow_mut().clear());
        let ctx = tsrun_new();
        tsrun_set_console(ctx, Some(console_cb), std::ptr::null_mut());
        let code = cs(src); let cpath = path.as_ref().map(|p| cs(p));
        let mut status = String::new(); let mut value = String::new(); let mut err = String::new(); let mut trace: Vec<String> = vec![];
        let pr = tsrun_prepare(ctx, code.as_ptr(), cpath.as_ref().map(|p| p.as_ptr()).unwrap_or(std::ptr::null()));
        if !pr.ok { status = "err".into(); err = errclass_from_msg(&rs(pr.error).unwrap_or_default()); }
        else {
            let mut n = 0u64;
            let defer = src.contains("/*defer*/"); let mut deferred: Vec<(u64, *mut TsRunValue)> = vec![]; let mut settled: Vec<*mut TsRunValue> = vec![];
            loop {
                n += 1; if n > 300_000 { status = "budget".into(); break; }
                let mut r = if stepwise { tsrun_step(ctx) } else { tsrun_run(ctx) };
                match r.status {
                    STEP_CONTINUE => { tsrun_step_result_free(&mut r); continue; }
                    STEP_COMPLETE => { status = "ok".into(); value = cshow(ctx, r.value); tsrun_step_result_free(&mut r); break; }
                    STEP_NEED_IMPORTS => {
                        let reqs = std::slice::from_raw_parts(r.imports, r.import_count);
                        let mut names = vec![]; let mut did = false;
                        for q in reqs { let rp = rs(q.resolved_path).unwrap_or_default(); let imp = if q.importer.is_null() { "-".to_string() } else { rs(q.importer).unwrap_or_default() }; names.push(format!("{}<-{}", rp, imp));
                            if let Some((_, msrc)) = modules.iter().find(|(pa, _)| *pa == rp) { let a = cs(&rp); let b = cs(msrc); let pm = tsrun_provide_module(ctx, a.as_ptr(), b.as_ptr()); if !pm.ok { status = "err".into(); err = errclass_from_msg(&rs(pm.error).unwrap_or_default()); } did = true; } }
                        trace.push(format!("Need{:?}", names)); tsrun_step_result_free(&mut r);
                        if !status.is_empty() { break; }
                        if !did { status = "need".into(); break; }
                    }
                    STEP_SUSPENDED => {
                        let orders: &[TsRunOrder] = if r.pending_count > 0 && !r.pending_orders.is_null() { std::slice::from_raw_parts(r.pending_orders, r.pending_count) } else { &[] };
                        let cancelled = if r.cancelled_count > 0 { std::slice::from_raw_parts(r.cancelled_orders, r.cancelled_count).to_vec() } else { vec![] };
                        trace.push(format!("Susp({:?},{:?})", orders.iter().map(|o| o.id).collect::<Vec<_>>(), cancelled));
                        if orders.is_empty() {
                            // deferred answers: settle the oldest promise still pending, else nothing is left to do
                            if deferred.is_empty() { status = "stuck".into(); tsrun_step_result_free(&mut r); break; }
                            let (id, pv) = deferred.remove(0); let s = cs(&format!("p{}", id)); let v = tsrun_string(ctx, s.as_ptr());
                            let rr = tsrun_resolve_promise(ctx, pv, v); let _ = rr; tsrun_value_free(v); settled.push(pv);
                            tsrun_step_result_free(&mut r); continue;
                        }
                        let mut vals = vec![]; let mut resp = vec![];
                        for o in orders {
                            if defer { let pr = tsrun_create_order_promise(ctx, o.id); if pr.value.is_null() { status = "err".into(); err = "create_order_promise".into(); break; } deferred.push((o.id, pr.value)); resp.push(TsRunOrderResponse { id: o.id, value: pr.value, error: std::ptr::null() }); }
                            else { let s = cs(&format!("v{}", o.id)); let v = tsrun_string(ctx, s.as_ptr()); vals.push(v); resp.push(TsRunOrderResponse { id: o.id, value: v, error: std::ptr::null() }); }
                        }
                        tsrun_fulfill_orders(ctx, resp.as_ptr(), resp.len());
                        for v in vals { tsrun_value_free(v); }
                        tsrun_step_result_free(&mut r);
                        if !status.is_empty() { break; }
                    }
                    STEP_DONE => { status = "done".into(); tsrun_step_result_free(&mut r); break; }
                    _ => { status = "err".into(); err = errclass_from_msg(&rs(r.error).unwrap_or_default()); tsrun_step_result_free(&mut r); break; }
                }
            }
        }
        // exports
        let mut cnt: usize = 0; let names = tsrun_get_export_names(ctx, &mut cnt); let mut ex = vec![];
        if !names.is_null() { let sl = std::slice::from_raw_parts(names, cnt); let mut ns: Vec<String> = sl.iter().map(|p| rs(*p).unwrap_or_default()).collect(); ns.sort();
            for n in &ns { let cn = cs(n); let v = tsrun_get_export(ctx, cn.as_ptr()); ex.push(format!("{}={}", n, if v.value.is_null() { "-".into() } else { let s = cshow(ctx, v.value); tsrun_value_free(v.value); s })); }
            tsrun_free_strings(names, cnt); }
        let log = CLOG.with(|l| l.borrow().clone());
        tsrun_free(ctx);
        format!("{}|{}|{}|{:?}|{:?}|exports[{}]", status, value, err, log, trace, ex.join(","))
    }
}

const NS_PRINT: &str = "JSON.stringify(Object.keys(ns).sort().map(function(k){ var v = ns[k]; return [k, typeof v, typeof v === 'function' ? (function(){ try { return String(v()); } catch (e) { return 'E:' + e.name; } })() : (typeof v === 'object' ? JSON.stringify(v) : String(v))]; }))";

fn role_dependency(src: &str, modules: &[(String, String)]) -> String {
    let mut mods = modules.to_vec(); mods.push(("/r/m.ts".into(), src.to_string()));
    let main = format!("import * as ns from './m.ts'; {}", NS_PRINT);
    let (mut i, log) = new_interp(); let p = Policy { modules: mods, path: Some("/r/main.ts".into()), budget: 300_000, ..Default::default() };
    let first = i.prepare(&main, Some(ModulePath::new("/r/main.ts"))); let o = drive(&mut i, &log, first, &p);
    format!("{}|{}|{}|{:?}", o.status, o.value, o.err, o.log)
}
fn role_internal(src: &str, modules: &[(String, String)]) -> String {
    let main = format!("import * as ns from 'app:m'; {}", NS_PRINT);
    let (mut i, log) = new_interp(); i.register_internal_module(InternalModule::source("app:m", src.to_string()));
    let p = Policy { modules: modules.to_vec(), path: Some("/r/main.ts".into()), budget: 300_000, ..Default::default() };
    let first = i.prepare(&main, Some(ModulePath::new("/r/main.ts"))); let o = drive(&mut i, &log, first, &p);
    format!("{}|{}|{}|{:?}", o.status, o.value, o.err, o.log)
}
fn role_main_names(src: &str, modules: &[(String, String)]) -> String {
    let (mut i, log) = new_interp(); let p = Policy { modules: modules.to_vec(), path: Some("/r/m.ts".into()), budget: 300_000, ..Default::default() };
    let first = i.prepare(src, Some(ModulePath::new("/r/m.ts"))); let o = drive(&mut i, &log, first, &p);
    let mut names = api::get_export_names(&i); names.sort();
    format!("{}|{:?}|{:?}", o.status, names, o.log)
}

pub fn case(v: &serde_json::Value) -> serde_json::Value {
    let src = v.get("src").and_then(|x| x.as_str()).unwrap_or("").to_string();
    let path = v.get("path").and_then(|x| x.as_str()).map(|s| s.to_string());
    let modules: Vec<(String, String)> = v.get("modules").and_then(|x| x.as_array()).map(|a| a.iter().filter_map(|m| { let m = m.as_array()?; Some((m.first()?.as_str()?.to_string(), m.get(1)?.as_str()?.to_string())) }).collect()).unwrap_or_default();
    let roles = v.get("roles").and_then(|x| x.as_bool()).unwrap_or(false);
    let mut out = serde_json::Map::new();
    let g = |f: &dyn Fn() -> String| -> String { match std::panic::catch_unwind(std::panic::AssertUnwindSafe(f)) { Ok(s) => s, Err(_) => "panic".into() } };
    out.insert("eval".into(), g(&|| rust_entry(&src, &path, &modules, 0)).into());
    out.insert("step".into(), g(&|| rust_entry(&src, &path, &modules, 1)).into());
    out.insert("step+reads".into(), g(&|| rust_entry(&src, &path, &modules, 2)).into());
    if src.contains("hostP") {
        // the C API has no host-promise constructor: these programs are compared over the Rust entry points only
        let step = out.get("step").cloned().unwrap_or_default();
        out.insert("c-run".into(), step.clone()); out.insert("c-step".into(), step);
    } else {
        out.insert("c-run".into(), g(&|| c_entry(&src, &path, &modules, false)).into());
        out.insert("c-step".into(), g(&|| c_entry(&src, &path, &modules, true)).into());
    }
    if roles {
        out.insert("role-dependency".into(), g(&|| role_dependency(&src, &modules)).into());
        out.insert("role-internal".into(), g(&|| role_internal(&src, &modules)).into());
        out.insert("role-main-names".into(), g(&|| role_main_names(&src, &modules)).into());
    }
    out.insert("status".into(), "ok".into());
    serde_json::Value::Object(out)
}

pub fn main(_args: &[String]) {
    let stdin = std::io::stdin(); let stdout = std::io::stdout(); let mut out = stdout.lock();
    for line in stdin.lock().lines() {
        let Ok(line) = line else { break }; if line.trim().is_empty() { continue; }
        let v: serde_json::Value = match serde_json::from_str(&line) { Ok(v) => v, Err(_) => continue };
        let id = v.get("id").cloned().unwrap_or(serde_json::Value::Null);
        let _ = writeln!(out, "BEGIN {}", id); let _ = out.flush();
        let mut j = case(&v); j["id"] = id;
        let _ = writeln!(out, "{}", j); let _ = out.flush();
    }
}
