//! C05 — every source text is accepted or rejected cleanly, in bounded time.
//!   tvh c05 soup <maxlen> <shard> <nshards> [small]   exhaustive token soups, in process
//!   tvh c05 prep                                      JSONL {id,src} on stdin -> prepare() in script and module mode
use std::io::{BufRead, Write};
use std::sync::atomic::{AtomicU64, Ordering};
use std::sync::{Arc, Mutex};
use tsrun::{compiler::Compiler, parser::Parser, Interpreter, ModulePath, StringDict};

pub const V: &[&str] = &["(", ")", "[", "]", "{", "}", "<", ">", ",", ";", ":", ".", "?.", "...", "?", "=>", "=", "==", "+", "-", "*", "**", "/", "!", "~", "&&", "||", "??", "+=", "++", "|", "&",
    "a", "b", "1", "'s'", "`t`", "`t${", "}`", "/r/", "if", "else", "for", "while", "do", "switch", "case", "default", "break", "continue", "return", "throw", "try", "catch", "finally",
    "function", "class", "extends", "new", "this", "super", "var", "let", "const", "async", "await", "yield", "import", "export", "from", "as", "of", "in", "typeof", "delete", "void",
    "enum", "interface", "type", "namespace", "declare", "abstract", "static", "get", "set", "@", "#p", "null", "true"];
pub const VSMALL: &[&str] = &["(", ")", "[", "]", "{", "}", "<", ">", ",", ";", ":", ".", "...", "?", "=>", "=", "+", "-", "a", "1", "`t${", "}`", "function", "class", "async", "await", "yield", "let", "of", "as"];

fn work_bound(len_chars: usize) -> u64 { 64 * (len_chars as u64) * (len_chars as u64) + 4096 }

/// Outcome of preparing one text directly through parser + compiler: "ok", "err", "panic:<msg>", "budget".
fn parse_compile(src: &str, module: bool) -> (String, u64) {
    tsrun::verif_hooks::reset(work_bound(src.chars().count()), 0);
    let s2 = src.to_string();
    let r = std::panic::catch_unwind(move || {
        let mut d = StringDict::new();
        let mut p = Parser::new(&s2, &mut d);
        match p.parse_program() {
            Ok(prog) => { if module { Compiler::compile_program_with_source(&prog, "/m.ts".to_string()).is_ok() } else { Compiler::compile_program(&prog).is_ok() } }
            Err(_) => false,
        }
    });
    let w = tsrun::verif_hooks::parse_work();
    tsrun::verif_hooks::reset(0, 0);
    match r {
        Ok(true) => ("ok".into(), w), Ok(false) => ("err".into(), w),
        Err(p) => { let m = if let Some(s) = p.downcast_ref::<&str>() { s.to_string() } else if let Some(s) = p.downcast_ref::<String>() { s.clone() } else { "?".into() };
            if m.contains("TSRUN_VERIF_PARSE_BUDGET") { ("budget".into(), w) } else { (format!("panic:{}", m.chars().take(120).collect::<String>()), w) } }
    }
}

fn soup(args: &[String]) {
    let n = |i: usize, d: usize| args.get(i).and_then(|s| s.parse::<usize>().ok()).unwrap_or(d);
    let (maxlen, shard, nshards) = (n(0, 2), n(1, 0), n(2, 1));
    let vocab: &[&str] = if args.get(3).map(|s| s == "small").unwrap_or(false) { VSMALL } else { V };
    // watchdog: a text that keeps the parser busy without advancing for 10 s is reported as a hang
    let progress = Arc::new(AtomicU64::new(0)); let current = Arc::new(Mutex::new(String::new()));
    { let progress = progress.clone(); let current = current.clone();
      std::thread::spawn(move || { let mut last = u64::MAX; let mut same = 0; loop { std::thread::sleep(std::time::Duration::from_secs(1)); let p = progress.load(Ordering::Relaxed);
          if p == last { same += 1; if same >= 10 { let s = current.lock().map(|g| g.clone()).unwrap_or_default(); println!("{}", serde_json::json!({"hang": s})); std::process::exit(3); } } else { same = 0; last = p; } } }); }
    let nv = vocab.len(); let mut total = 0u64; let mut accepted = 0u64; let mut maxwork = 0u64; let mut maxwork_src = String::new();
    let mut bad: Vec<serde_json::Value> = vec![]; let mut nbad = 0u64; let mut outcomes = std::collections::HashSet::new();
    let mut sample: Vec<String> = vec![];
    for l in 1..=maxlen {
        let mut idx = vec![0usize; l]; let mut ord = 0u64;
        'outer: loop {
            if (ord as usize) % nshards == shard {
                for sep in [" ", ""] {
                    if sep.is_empty() && l == 1 { continue; }
                    let src: String = idx.iter().map(|&i| vocab[i]).collect::<Vec<_>>().join(sep);
                    if let Ok(mut g) = current.lock() { g.clear(); g.push_str(&src); }
                    for module in [false, true] {
                        let (st, w) = parse_compile(&src, module); total += 1; progress.fetch_add(1, Ordering::Relaxed);
                        if w > maxwork { maxwork = w; maxwork_src = src.clone(); }
                        if st == "ok" { accepted += 1; if sample.len() < 5 && l == maxlen { sample.push(src.clone()); } }
                        outcomes.insert(st.chars().take(6).collect::<String>());
                        if st != "ok" && st != "err" { nbad += 1; if bad.len() < 300 { bad.push(serde_json::json!({"src": src, "module": module, "outcome": st, "work": w})); } }
                    }
                }
            }
            ord += 1;
            let mut k = l; loop { if k == 0 { break 'outer; } k -= 1; idx[k] += 1; if idx[k] < nv { break; } idx[k] = 0; }
        }
    }
    println!("{}", serde_json::json!({"total": total, "accepted": accepted, "bad": bad, "nbad": nbad, "max_work": maxwork, "max_work_src": maxwork_src, "vocab": nv, "maxlen": maxlen, "outcomes": outcomes.len(), "sample_accepted": sample}));
}

/// prepare() through the public Interpreter API, script and module mode, on the ordinary main-thread stack.
fn prep() {
    let stdin = std::io::stdin(); let stdout = std::io::stdout(); let mut out = stdout.lock();
    for line in stdin.lock().lines() {
        let Ok(line) = line else { break }; if line.trim().is_empty() { continue; }
        let v: serde_json::Value = match serde_json::from_str(&line) { Ok(v) => v, Err(_) => continue };
        let id = v.get("id").cloned().unwrap_or_default(); let src = v.get("src").and_then(|x| x.as_str()).unwrap_or("").to_string();
        let _ = writeln!(out, "BEGIN {}", id); let _ = out.flush();
        let mut res = vec![]; let mut work = 0u64;
        for module in [false, true] {
            tsrun::verif_hooks::reset(work_bound(src.chars().count()), 0);
            let s2 = src.clone();
            let r = std::panic::catch_unwind(move || { let mut i = Interpreter::new(); match i.prepare(&s2, if module { Some(ModulePath::new("/main.ts")) } else { None }) { Ok(_) => "ok".to_string(), Err(e) => format!("err:{}", crate::common::errclass(&e)) } });
            work = work.max(tsrun::verif_hooks::parse_work()); tsrun::verif_hooks::reset(0, 0);
            res.push(match r { Ok(s) => s, Err(p) => { let m = if let Some(s) = p.downcast_ref::<&str>() { s.to_string() } else if let Some(s) = p.downcast_ref::<String>() { s.clone() } else { "?".into() };
                if m.contains("TSRUN_VERIF_PARSE_BUDGET") { "budget".into() } else { format!("panic:{}", m.chars().take(100).collect::<String>()) } } });
        }
        let _ = writeln!(out, "{}", serde_json::json!({"id": id, "status": res[0], "value": res[1], "err": "", "log": [], "steps": work, "msg": "", "trace": [], "stale": 0})); let _ = out.flush();
    }
}

pub fn main(args: &[String]) {
    match args.first().map(|s| s.as_str()) { Some("soup") => soup(&args[1..]), Some("prep") => prep(), _ => { eprintln!("usage: tvh c05 soup|prep"); std::process::exit(2); } }
}
