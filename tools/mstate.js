// Reference-engine-defined state graph for C01 M-state: BFS over statement sequences with
// de-duplication on the canonical dump. Input: JSON {printer, init, sigma, depth, treedepth}; output JSONL
// {hist:[..], dump} for every edge (graph) and for the full undeduplicated tree up to treedepth.
const vm = require('vm'); const fs = require('fs');
const cfg = JSON.parse(fs.readFileSync(0, 'utf8'));
const DUMPX = "__s([a,b,c,Object.isFrozen(b),Object.isSealed(a)])";
function run(hist){ const a=run1(hist,''); const b=run1(hist,'"use strict";'); return a===b?a:a+"\x1f"+b; }
function run1(hist,pre){ const ctx=vm.createContext({}); try { vm.runInContext(cfg.printer+"\n"+cfg.init, ctx);
  for(const s of hist){ vm.runInContext(pre+"try { "+cfg.sigma[s]+"; } catch (e) { c = 'ERR:' + (e && e.name); }", ctx, {timeout:1000}); }
  return vm.runInContext(DUMPX, ctx, {timeout:1000}); } catch(e){ return 'DUMPERR:'+(e&&e.name); } }
const seen=new Map(); let frontier=[[]]; seen.set(run([]),[]); const out=[]; const emitted=new Set();
function emit(h,d){ const k=h.join(','); if(emitted.has(k))return; emitted.add(k); out.push(JSON.stringify({hist:h,dump:d})); }
// full tree
function tree(h,depth){ if(depth===0)return; for(let s=0;s<cfg.sigma.length;s++){ const h2=h.concat([s]); emit(h2,run(h2)); tree(h2,depth-1); } }
tree([],cfg.treedepth);
const dumps=new Map(); // histkey -> dump for reuse
for(let depth=1;depth<=cfg.depth;depth++){ const next=[]; for(const h of frontier){ for(let s=0;s<cfg.sigma.length;s++){ const h2=h.concat([s]); const k=run(h2); emit(h2,k); if(!seen.has(k)){ seen.set(k,h2); next.push(h2);} } } frontier=next; process.stderr.write('depth '+depth+' states '+seen.size+' edges '+out.length+' frontier '+frontier.length+'\n'); }
process.stdout.write(out.join('\n')+'\n'+JSON.stringify({states:seen.size})+'\n');
