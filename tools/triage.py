#!/usr/bin/env python3
"""Manual triage helper (never run by checks): turns the violation lists written by a check run
(replays/<ID>/all_<tier>.jsonl) into known_findings/<ID>.cases.gz, attributing every failing case to
a finding by the classifier rules in known_findings/<ID>.json ("rules": [[regex on title, finding id], ...]).
Cases no rule matches are listed and NOT recorded. usage: tools/triage.py <ID> [--tiers quick,thorough]"""
import gzip, json, os, re, sys
ROOT = os.path.dirname(os.path.dirname(os.path.abspath(__file__)))
pid = sys.argv[1]
kf = json.load(open(os.path.join(ROOT, "known_findings", pid + ".json")))
rules = [(re.compile(r, re.S), fid) for r, fid in kf.get("rules", [])]
ids = {f["id"] for f in kf["findings"]}
rows = {}
for tier in ("quick", "thorough"):
    p = os.path.join(ROOT, "replays", pid, "all_%s.jsonl" % tier)
    if os.path.exists(p):
        for l in open(p):
            d = json.loads(l)
            rows[(d["key"], d["digest"])] = d
# keep what is already recorded
old = {}
p = os.path.join(ROOT, "known_findings", pid + ".cases.gz")
if os.path.exists(p) and "--fresh" not in sys.argv:
    for l in gzip.open(p, "rt"):
        a = l.split()
        if len(a) == 3:
            old[(a[0], a[1])] = a[2]
unmatched = []
counts = {}
new = dict(old)
for (k, dg), d in rows.items():
    fid = None
    for rx, f in rules:
        if rx.search(d["title"]):
            fid = f
            break
    if fid is None:
        unmatched.append(d["title"])
        continue
    assert fid in ids, fid
    new[(k, dg)] = fid
for v in new.values():
    counts[v] = counts.get(v, 0) + 1
with gzip.open(p, "wt") as f:
    for (k, dg), fid in sorted(new.items()):
        f.write("%s %s %s\n" % (k, dg, fid))
for f in kf["findings"]:
    f["cases"] = counts.get(f["id"], 0)
json.dump(kf, open(os.path.join(ROOT, "known_findings", pid + ".json"), "w"), indent=1)
print("recorded", len(new), "cases;", counts)
print("UNMATCHED:", len(unmatched))
for t in unmatched[:40]:
    print("   ", t[:220])
