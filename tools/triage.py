#!/usr/bin/env python3
"""Manual triage helper (never run by checks). Turns the violation lists a check run wrote
(replays/<ID>/all_<tier>.jsonl) into known_findings/<ID>.json + <ID>.cases.gz: one finding per
root-cause cluster (the cluster label is assigned by the check's own classifier), each listing the exact
(case key, wrong-observation digest) pairs it explains. Hand-written notes per cluster are kept in
known_findings/<ID>.notes.json. Run only after the failing cases have been triaged by hand as genuine.
usage: tools/triage.py <ID> [--fresh] [--only-tier quick|thorough]"""
import gzip, json, os, sys
sys.path.insert(0, os.path.dirname(os.path.dirname(os.path.abspath(__file__))))
from vlib.core import sha, ROOT
pid = sys.argv[1]
kp = os.path.join(ROOT, "known_findings", pid + ".json")
kf = json.load(open(kp)) if os.path.exists(kp) else {"property": pid, "findings": [], "fixed": []}
np_ = os.path.join(ROOT, "known_findings", pid + ".notes.json")
notes = json.load(open(np_)) if os.path.exists(np_) else {}
cp = os.path.join(ROOT, "known_findings", pid + ".cases.gz")
cases = {}
old_f = {f["id"]: f for f in kf.get("findings", [])}
if os.path.exists(cp) and "--fresh" not in sys.argv:
    for l in gzip.open(cp, "rt"):
        a = l.split()
        if len(a) == 3:
            cases[(a[0], a[1])] = a[2]
found = dict(old_f) if "--fresh" not in sys.argv else {}
for tier in ("quick", "thorough"):
    p = os.path.join(ROOT, "replays", pid, "all_%s.jsonl" % tier)
    if not os.path.exists(p):
        continue
    for l in open(p):
        d = json.loads(l)
        cl = d.get("cluster") or d["title"][:60]
        fid = "%s-%s" % (pid, sha(cl, 6))
        cases[(d["key"], d["digest"])] = fid
        if fid not in found:
            found[fid] = {"id": fid, "title": cl, "example": d["title"][:400]}
cnt = {}
for fid in cases.values():
    cnt[fid] = cnt.get(fid, 0) + 1
fl = []
for fid, f in sorted(found.items(), key=lambda kv: -cnt.get(kv[0], 0)):
    if cnt.get(fid, 0) == 0:
        continue
    f["cases"] = cnt[fid]
    f["cases_file"] = pid + ".cases.gz"
    if f["title"] in notes:
        f.update(notes[f["title"]])
    fl.append(f)
kf["findings"] = fl
json.dump(kf, open(kp, "w"), indent=1)
with gzip.open(cp, "wt") as f:
    for (k, dg), fid in sorted(cases.items()):
        f.write("%s %s %s\n" % (k, dg, fid))
print("%s: %d findings, %d cases" % (pid, len(fl), len(cases)))
for f in fl[:200]:
    print("  %5d %s  %s" % (f["cases"], f["id"], f["title"][:110]))
