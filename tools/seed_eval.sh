#!/bin/bash
# Applies a seeded patch to /repo, runs the given checks (quick tier), restores /repo. usage: tools/seed_eval.sh <patch> <ID>...
P="$1"; shift
cd /verif
git -C /repo diff --quiet || { echo "/repo is dirty"; exit 2; }
git -C /repo apply "$P" || { echo "patch does not apply to the current /repo"; exit 3; }
for id in "$@"; do
  ./check $id --tier ${TIER:-quick} > /tmp/seed_eval_$id.log 2>&1; rc=$?
  echo "check $id rc=$rc  $(grep -c '^VIOLATION' /tmp/seed_eval_$id.log) VIOLATION lines; $(tail -1 /tmp/seed_eval_$id.log | cut -c1-200)"
done
git -C /repo checkout -- .
