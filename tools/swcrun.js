// Cross-check helper (tools only, needs node >= 22.13): transforms each TypeScript program with node's built-in
// swc-based transform (an emit implementation independent of vlib/gen04.py), evaluates it in a fresh vm context
// and prints the completion value, so that the generator's emit model can be validated shape by shape.
const vm = require('vm'); const m = require('node:module');
const rl = require('readline').createInterface({input: process.stdin, crlfDelay: Infinity});
rl.on('line', line => { if(!line.trim())return;
  const v = JSON.parse(line); let out = {id: v.id, status: '', value: '', err: ''};
  try { const js = m.stripTypeScriptTypes(v.src, {mode: 'transform'});
    const r = vm.runInContext(js, vm.createContext({}), {timeout: 3000}); out.status = 'ok'; out.value = typeof r === 'string' ? 's:' + r : 'other'; }
  catch (e) { out.status = 'err'; out.err = String(e && e.name) + ':' + String(e && e.message).slice(0, 200); }
  console.log(JSON.stringify(out));
});
