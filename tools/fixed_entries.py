#!/usr/bin/env python3
"""Manual helper (never run by checks): completes the `fixed` list of every known_findings/<ID>.json from
the table below, which assigns each `fix:` commit of /repo to the check(s) that exposed the defect.
Entries already present (hand-written: what failed) are kept; a missing one gets the commit subject.
A fixed entry suppresses nothing; it is a record.
usage: tools/fixed_entries.py            (fails if a fix commit of /repo is not in the table)"""
import json, os, subprocess, sys
ROOT = os.path.dirname(os.path.dirname(os.path.abspath(__file__)))
MAP = {
    "ab7cfba": ["C13"], "35a3513": ["C09", "C18"], "4c436e4": ["C01", "C15"], "2fe4344": ["C01"], "e595c15": ["C01"], "4aebfe4": ["C01"], "5d02b9f": ["C01"],
    "72e1289": ["C01"], "796457f": ["C01", "C16"], "c8e8573": ["C01", "C15"], "7e2f379": ["C01", "C15"], "0756318": ["C01", "C15"], "5446a67": ["C01", "C05"],
    "f335289": ["C05"], "7053398": ["C01", "C05", "C10"], "0142568": ["C01", "C10"], "2e6c5bf": ["C16"], "c619236": ["C16"], "c6aa27b": ["C01", "C02"],
    "a02925c": ["C01", "C02"], "c54f6f8": ["C01", "C02"], "e8185e5": ["C01", "C02"], "8d9d918": ["C01", "C14"], "6b1f4ed": ["C14"], "1ba1b3f": ["C11", "C14"],
    "b58690f": ["C14"], "b861e7d": ["C11"], "c7adc4e": ["C02", "C09"], "1071015": ["C07", "C19"], "2b8d106": ["C07", "C08"], "71b6377": ["C07"], "ea03d86": ["C08"],
    "a6f4c9d": ["C09"], "f6802ac": ["C03"], "fd04f07": ["C04"], "5ce7a7e": ["C01", "C04"], "0a28b4e": ["C03", "C04"], "59a96c1": ["C04"], "9e7ee81": ["C04"],
    "65ab9f1": ["C03", "C04"], "edae39f": ["C04"], "3f7327e": ["C04"], "44857c7": ["C01", "C04"], "7156096": ["C01", "C04"], "2030afc": ["C01", "C20"],
    "28cf01a": ["C20"], "9613611": ["C20"], "b342e3c": ["C01", "C20"], "0858852": ["C06"], "bf8e70d": ["C01", "C06"], "cc6dd71": ["C06"], "53de3ed": ["C17"],
    "24f73f1": ["C17"], "4d0779a": ["C03"], "00f08d2": ["C03"], "b2be6ce": ["C01"], "6300a02": ["C01"], "ffbdba3": ["C01"], "9cc5da0": ["C03"], "c5bdd5e": ["C01", "C03"],
    "9637a23": ["C01", "C10"], "7d65345": ["C05"], "ec7cf3b": ["C05"], "aa6e03f": ["C01"], "bf161f7": ["C01"], "0f4eab7": ["C03"], "b335af9": ["C16"],
    "6b81de7": ["C01"], "6ede90f": ["C01"], "b491168": ["C01"], "ffdb067": ["C01"], "a160b0e": ["C01"], "b692e95": ["C01"], "ef5fb1f": ["C01"], "8e45f37": ["C01"],
    "bc90715": ["C01"], "368cd54": ["C01"], "841b4c9": ["C01"], "19b40d9": ["C01"], "6c4348a": ["C01"], "3e78aff": ["C01"], "fe776ff": ["C01"], "c153b33": ["C01"],
    "ba9eebb": ["C01"], "8fc29b4": ["C01"], "97c04b0": ["C01"], "da3f595": ["C01"], "4dc41aa": ["C01"], "a4aea6f": ["C01"], "fa1a2c0": ["C01"], "0b8dfcb": ["C01"],
    "35321df": ["C01"], "19122ff": ["C01", "C06"], "d13fb98": ["C01"], "0d7c423": ["C01"], "6c4582f": ["C01"], "acd91f6": ["C01"], "390a3e4": ["C01"], "4b78a8c": ["C01"],
    "def6c5a": ["C01"], "5f0676f": ["C01"], "3399837": ["C01"], "c52255e": ["C01"], "cfa8294": ["C01"], "e4a46f9": ["C19"], "f0c2944": ["C08"], "66e5642": ["C12", "C09"], "5036a81": ["C17", "C16"], "6433c02": ["C11"], "0652298": ["C11"], "caf0eaf": ["C06"], "102a6c1": ["C04"], "b6cedec": ["C09"], "d9f1246": ["C08"], "9f74568": ["C08"], "f337d5e": ["C02"], "fbe9057": ["C01", "C19"], "f5059bf": ["C01"], "172e06a": ["C01"], "9f3bac1": ["C01"], "b6ca162": ["C01"], "0035216": ["C01"], "45bc911": ["C01"], "db27c0c": ["C01"], "4b77a23": ["C01"], "ef25914": ["C01"], "0e23250": ["C01"], "6d41e56": ["C01"], "23a51f6": ["C01"], "58c657a": ["C01"], "90631ee": ["C01"], "b5f3288": ["C01"], "892bffe": ["C01"], "67e2ea1": ["C01"], "726cd74": ["C01"], "087251d": ["C01"], "a795f70": ["C01"], "2a19896": ["C01"], "675bb4a": ["C01"], "8e34685": ["C01"], "9483128": ["C01"], "246d333": ["C01"], "0c8a429": ["C01"], "717b6fc": ["C01"], "7840183": ["C01"], "c30e84f": ["C01"], "e65cdd4": ["C01"], "184dc2a": ["C01"], "552bd2e": ["C01"], "e6906e2": ["C01"], "d41d4dd": ["C01"], "47a205a": ["C01"], "acf165a": ["C01"], "8d3f1b9": ["C01"], "c45be90": ["C01"], "fabd99c": ["C01"], "dfc6ce6": ["C01"], "691d278": ["C01"], "4a6ee0f": ["C01"], "f8d0c2c": ["C01"], "458e847": ["C01"], "01a9551": ["C01"],    
}
log = subprocess.run(["git", "-C", "/repo", "log", "--reverse", "--format=%h\t%s"], capture_output=True, text=True, check=True).stdout.splitlines()
per = {}
missing = []
for line in log:
    h, s = line.split("\t", 1)
    if not s.startswith("fix:"):
        continue
    h = h[:7]
    if h not in MAP:
        missing.append(line)
        continue
    for pid in MAP[h]:
        per.setdefault(pid, []).append("fixed: property=%s %s %s" % (pid, h, s[4:].strip()))
if missing:
    sys.exit("fix commits not in the table:\n" + "\n".join(missing))
for pid, entries in sorted(per.items()):
    p = os.path.join(ROOT, "known_findings", pid + ".json")
    d = json.load(open(p)) if os.path.exists(p) else {"property": pid, "findings": []}
    import re
    have, other = {}, []
    for x in d.get("fixed", []):
        m = re.match(r"fixed: property=%s ([0-9a-f]{7})" % pid, x)
        if m:
            have.setdefault(m.group(1), []).append(x)
        else:
            other.append(x)
    d["fixed"] = [x for e in entries for x in have.get(e.split()[2], [e])] + other
    json.dump(d, open(p, "w"), indent=1)
    print("%s: %d fixed entries, %d findings" % (pid, len(entries), len(d.get("findings", []))))
