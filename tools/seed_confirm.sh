#!/bin/bash
# Confirms a seeded change in its scratch worktree: suite passes with the change, the demonstration fails with
# it and passes without it. usage: tools/seed_confirm.sh <worktree> [extra cargo test args for the demo]
set -u
W="$1"; shift
cd "$W" || exit 2
export CARGO_NET_OFFLINE=true
git diff --quiet -- src && { echo "no source change applied in $W"; exit 2; }
echo "== suite with the change"
cargo test --workspace --no-fail-fast --offline 2>&1 | grep -E "^test result" | awk '{p+=$4; f+=$6} END {print "passed="p" failed="f}'
cp seed_out/demo.rs tests/seed_demo.rs
echo "== demonstration WITH the change (must fail)"
cargo test --offline --test seed_demo "$@" 2>&1 | grep -E "^test result|^test .* (ok|FAILED)" | tail -8
git apply -R seed_out/patch.diff || { echo "cannot revert patch"; exit 2; }
echo "== demonstration WITHOUT the change (must pass)"
cargo test --offline --test seed_demo "$@" 2>&1 | grep -E "^test result|^test .* (ok|FAILED)" | tail -8
git apply seed_out/patch.diff
rm -f tests/seed_demo.rs
