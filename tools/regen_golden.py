#!/usr/bin/env python3
"""Rebuilds the golden tables from the reference engine (node). Needs node; the checks do not.
usage: tools/regen_golden.py [family ...]   (default: all C01 families + mstate)"""
import json, os, subprocess, sys, time, zlib
sys.path.insert(0, os.path.dirname(os.path.dirname(os.path.abspath(__file__))))
from vlib import gen01, prog, core

def mstate(depth, treedepth, name):
    cfg = {"printer": prog.PRINTER, "init": gen01.STATE_INIT, "sigma": gen01.STATE_SIGMA, "depth": depth, "treedepth": treedepth}
    r = subprocess.run([prog.NODE, os.path.join(core.ROOT, "tools", "mstate.js")], input=json.dumps(cfg), stdout=subprocess.PIPE, text=True)
    lines = r.stdout.strip().split("\n")
    meta = json.loads(lines[-1])
    hdr = json.dumps({"sigma_digest": core.sha("\0".join(gen01.STATE_SIGMA) + gen01.STATE_INIT, 16), "depth": depth, "treedepth": treedepth, "states": meta["states"], "edges": len(lines) - 1})
    data = (hdr + "\n" + "\n".join(lines[:-1]) + "\n").encode()
    open(prog.golden_path(name), "wb").write(zlib.compress(data, 9))
    print(name, hdr)

def main():
    fams = sys.argv[1:] or list(gen01.FAMILIES) + ["mstate"]
    for f in fams:
        t0 = time.time()
        if f == "mstate":
            mstate(3, 2, "C01.mstate.quick")
            continue
        if f == "mstate-thorough":
            mstate(4, 2, "C01.mstate.thorough")
            continue
        cases = gen01.FAMILIES[f]()
        obs = prog.node_run(cases)
        prog.write_golden("C01." + f, f, cases, obs)
        print(f, len(cases), "cases", "%.1fs" % (time.time() - t0), os.path.getsize(prog.golden_path("C01." + f)), "bytes")
main()
