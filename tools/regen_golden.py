#!/usr/bin/env python3
"""Rebuilds the golden tables from the reference engine (node). Needs node; the checks do not.
usage: tools/regen_golden.py [family ...]   (default: all C01 families + mstate)"""
import json, os, subprocess, sys, time, zlib
sys.path.insert(0, os.path.dirname(os.path.dirname(os.path.abspath(__file__))))
from vlib import gen01, prog, core, gen04

def mstate(depth, treedepth, name):
    cfg = {"printer": prog.PRINTER, "init": gen01.STATE_INIT, "sigma": gen01.STATE_SIGMA, "depth": depth, "treedepth": treedepth}
    r = subprocess.run([prog.NODE, os.path.join(core.ROOT, "tools", "mstate.js")], input=json.dumps(cfg), stdout=subprocess.PIPE, text=True)
    lines = r.stdout.strip().split("\n")
    meta = json.loads(lines[-1])
    hdr = json.dumps({"sigma_digest": core.sha("\0".join(gen01.STATE_SIGMA) + gen01.STATE_INIT, 16), "depth": depth, "treedepth": treedepth, "states": meta["states"], "edges": len(lines) - 1})
    data = (hdr + "\n" + "\n".join(lines[:-1]) + "\n").encode()
    open(prog.golden_path(name), "wb").write(zlib.compress(data, 9))
    print(name, hdr)

def xcheck(tier, items, obs):
    """validate the emit model: node 22's built-in swc transform of the TypeScript text must give the same
    observations as node on the generator's emit"""
    node22 = "/root/.nvm/versions/node/v22.22.2/bin/node"
    if not os.path.exists(node22):
        print("no node 22: emit model not cross-checked")
        return
    import threading
    nw = 16
    shards = [items[i::nw] for i in range(nw)]
    outs = [None] * nw

    def go(i):
        inp = "".join(json.dumps({"id": it[0], "src": it[1]}) + "\n" for it in shards[i])
        outs[i] = subprocess.run([node22, "--no-warnings", os.path.join(core.ROOT, "tools", "swcrun.js")], input=inp, stdout=subprocess.PIPE, text=True).stdout
    ths = [threading.Thread(target=go, args=(i,)) for i in range(nw)]
    [t.start() for t in ths]
    [t.join() for t in ths]
    res = {}
    for o in outs:
        for line in o.splitlines():
            d = json.loads(line)
            res[d["id"]] = d
    from vlib import c04
    same = diff = unsupported = 0
    diffs = []
    for it, g in zip(items, obs):
        r = res.get(it[0])
        alts = c04.gold_values(g)
        if r is None or r["status"] != "ok":
            unsupported += 1
            diffs.append((it[0], "swc: " + (r or {}).get("err", "lost")))
            continue
        vals = r["value"][2:].split(gen04.SEP)
        bad = [(it[3][k], vals[k], [a[k] for a in alts]) for k in range(len(it[3])) if k >= len(vals) or vals[k] not in [a[k] for a in alts]]
        if bad:
            diff += 1
            diffs.append((it[0], bad[:3]))
        else:
            same += 1
    for d in diffs[:40]:
        print("XCHECK", d)
    json.dump({"tier": tier, "programs": len(items), "swc_transform_agrees": same, "differs": diff, "swc_rejects": unsupported, "differing_by_group": dict(__import__("collections").Counter(d[0].split(":")[0] for d in diffs)),
               "note": "all differences are merged namespace blocks that refer to an earlier block's export without qualification, which node's single-pass swc transform does not rewrite to N.x (tsc does); see DESIGN.md C04",
               "differing": [d[0] for d in diffs][:200]},
              open(os.path.join(core.ROOT, "golden", "C04.%s.xcheck.json" % tier), "w"), indent=1)
    print("emit model cross-check against node22/swc transform: %d agree, %d differ, %d rejected" % (same, diff, unsupported))


def main():
    fams = sys.argv[1:] or list(gen01.FAMILIES) + ["mstate"]
    for f in fams:
        t0 = time.time()
        if f == "mstate":
            mstate(3, 2, "C01.mstate.quick")
            continue
        if f in ("c04", "c04-thorough"):
            tier = "quick" if f == "c04" else "thorough"
            from vlib import c04
            items = gen04.items(tier)
            cases = c04.cases_of(items, "js")
            obs = prog.node_run(cases)
            bad = [(c.id, o) for c, o in zip(cases, obs) if not o.startswith("ok|s:")]
            for b in bad[:20]:
                print("EMIT DOES NOT RUN ON NODE:", b)
            prog.write_golden("C04." + tier, "C04." + tier, cases, obs)
            xcheck(tier, items, obs)
            print(f, len(cases), "cases", len(bad), "bad", "%.1fs" % (time.time() - t0))
            continue
        if f == "mstate-thorough":
            mstate(4, 2, "C01.mstate.thorough")
            continue
        cases = gen01.FAMILIES[f]()
        obs = prog.node_run(cases)
        prog.write_golden("C01." + f, f, cases, obs)
        print(f, len(cases), "cases", "%.1fs" % (time.time() - t0), os.path.getsize(prog.golden_path("C01." + f)), "bytes")
main()
