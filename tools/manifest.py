#!/usr/bin/env python3
"""Regenerates MANIFEST.json from the table below and validates it (needs python3-vt for jsonschema)."""
import json, os, subprocess, sys
ROOT = os.path.dirname(os.path.dirname(os.path.abspath(__file__)))
props = [json.loads(l)["id"] for l in open(os.path.join(ROOT, "properties.jsonl"))]

CHECKS = {
 "C13": dict(cat="model_checking", technique="explicit-state BFS over operation histories of the real Heap/Guard/Gc API against a reachability model (state = history replayed on the real code; key = model + heap dump); ASan-instrumented explorer in the thorough tier",
    text="Every operation sequence over the public collector API up to depth 7 (quick) / 8-9 (thorough) from the empty and one-guard states, plus depth 2-3 from scripted states crossing the 256-slot chunk and 16-guard pool boundaries, is executed on the real code and compared with a plain reachability model after every operation; exact live counts and pooled sets after every collection. Model checking is the right level: the contract is over histories, and the space per bound is finite and small.",
    note="Bounds: <=3 guards, <=5 handles, <=4 objects plus bulk prefixes; stale handles only cloned/dropped; memory safety observed by ASan (thorough tier) on the explored executions only.", ref="DESIGN.md section 5 C13"),
 "C18": dict(cat="exploration", technique="exhaustive enumeration of all (specifier, importer) pairs over a 7-symbol segment alphabet up to a length bound, each compared with an independent reference resolver",
    text="Complete enumeration (13 M pairs quick, >1.4 G pairs thorough: specifier<=5 x importer<=4 segments and total<=7 segments) of the property's own alphabet; every pair is resolved by the real ModulePath::resolve and compared with an independent join/normalise/clamp reference plus the separately stated invariants (absolute, canonical, no trailing slash, idempotent, bare pass-through). The function is pure, so exhaustive enumeration within the bound is a complete decision for that bound.",
    note="Reference semantics for the importer's directory = text before the last '/'. The specifiers '.'/'..' alone and relative specifiers without an absolute importer are outside what the statement defines and only checked for no-panic.", ref="DESIGN.md section 5 C18"),
 "C15": dict(cat="exploration", technique="exhaustive enumeration of structured families of doubles, decimal strings and digit/radix arguments, each checked against exact arithmetic (shortest round-trip digits, Fractions, modular integers)",
    text="Every member of the structured families named by the property (all 2047 exponents x boundary mantissas, every power of 2 and 10 with neighbours, integers around 2^31/2^32/2^53/10^21, notation boundaries, d x 10^e strings for all exponents, exact halfway expansions, every digit count 0..100, every radix 2..36) is pushed through the real entry points (number_to_string / string_to_number directly; literals, String(), templates, |0, >>>0, <<, Number(), parseFloat, toFixed/toPrecision/toExponential/toString(radix) in-program) and compared with an exact reference: 80 k cases quick, 2.8 M thorough. The functions are pure, so enumeration of the families is a complete decision within them.",
    note="The 2^64 bit patterns are covered by structured families only (no claim beyond them). Reference: Python repr (shortest, closest, even), float() correctly rounded, Fraction arithmetic with the specification's tie rule; radix output compared only where exact.", ref="DESIGN.md section 5 C15"),
 "C05": dict(cat="exploration", technique="exhaustive enumeration of token strings up to a length bound, of every depth of 68 nesting families, and of all single-token mutations of a program corpus, each prepared by the real parser/compiler in isolated workers with a deterministic parser-work counter",
    text="All token strings of <=3 (thorough <=4) tokens over an 89-token JS/TS vocabulary and <=4 (<=5) over a 30-token one, joined with and without spaces, in script and module mode (6.3 M / 350 M parses); every depth 1..40 and doubling to 8192 (131072) of 68 nesting families incl. hostile speculative-parse families; every prefix, single-token deletion and replacement of 90 corpus programs; all 1-2 character strings over 42 characters in 14 lexical contexts. Oracle per text: prepare() returns Ok or Err - never a panic, a dead/hung worker, or more than 64*len^2+4096 token advances. Exploration with a deterministic work bound decides 'accepted or rejected cleanly, in polynomial time' for every enumerated text.",
    note="8 MiB stack / 4 GiB address space per worker; &str API, so only valid UTF-8; polynomial bound is checked as the fixed quadratic budget above.", ref="DESIGN.md section 5 C05"),
 "C10": dict(cat="exploration", technique="exhaustive enumeration of every size n in dense windows around the internal widths (2^7, 2^8, 2^15, 2^16) for 35 construct families, self-checking programs with closed-form expected values, run on an overflow-checked and a release-like build",
    text="For each of 35 construct families (literals, argument/parameter lists, templates, patterns, chains, switch cases, class/enum members, sequences of statements/declarations/calls, distinct constants, jump distances, string/array lengths), alone and embedded between live temporaries, every size in the windows (quick: ~100 sizes per family; thorough: every n in 0..600 for register-bound families, windows of +-40 around 2^15/2^16 and a ladder to 100000 for the others) is compiled and run on both builds; accepted outcomes are the closed-form value or, for a single oversized construct, an explicit prepare() error; sequence families must never be refused. Complete within the stated size sets.",
    note="Closed forms are computed by the generator; a prepare()-time Err is taken as an explicit limit error. Sizes beyond 100000 are not covered.", ref="DESIGN.md section 5 C10"),
 "C01": dict(cat="model_checking", technique="bounded exhaustive enumeration of closed program families (operator x operand alphabets, statement skeletons to depth 2-3, scope/pattern/class matrices, generator operation sequences, built-in x receiver x argument alphabets) plus replay of every edge of a reference-defined state graph (M-state) on the real interpreter, each compared with committed reference-engine observations",
    text="Each family is a small closed alphabet enumerated completely up to a bound (quick 89 k programs, thorough 0.8 M incl. depth-2 expressions and depth-3 control-flow skeletons); the M-state family is an explicit state graph (14 k states / 43 k transitions at depth 3 over a 50-statement alphabet, de-duplicated on a canonical dump by the reference engine) whose every edge is replayed on tsrun from a fresh interpreter. The oracle is the reference engine's observation (value through an in-program canonical printer, console strings, error class); cases whose strict/sloppy reference results differ accept either. This reaches the operator x coercion x control-flow cross product no hand-written snippet samples.",
    note="Trusted: node v20 as the ECMAScript reference on the restricted feature set (no error messages, locale/timezone, approximated Math, non-ISO dates). Bounded depth and alphabets. Known defects are recorded per root-cause cluster in known_findings/C01.*; a listed case failing differently is reported.", ref="DESIGN.md section 5 C01"),
 "C16": dict(cat="exploration", technique="exhaustive enumeration of JSON document families (trees over leaf/key alphabets, all Unicode scalar values, escape forms, depth/width ladders) pushed through every host/script path of the real bridge and compared with an independent strict parser",
    text="1.2 M (quick) / tens of millions (thorough) path results: every leaf under every key, all ordered key pairs and triples, all depth-2 trees over reduced alphabets, a number zoo, every Unicode scalar value raw/escaped/as key (quick: boundary ranges + every 257th), lone-surrogate and malformed escapes, nesting depths to 10 000/100 000 in isolated workers; paths: create_from_json->js_value_to_json, host value->script JSON.stringify, order-response path, JSON.parse->JSON.stringify (indent 0, 2, tab), JSON.parse->Complete value, and the same after rebuilding the value through member access. Oracle: output is well-formed per Python's json and equal as an unordered value with numeric comparison.",
    note="Key order and -0 vs 0 are not demanded; lone surrogates may be refused; the host's own serde_json parse limits (depth 128) are outside the property.", ref="DESIGN.md section 5 C16"),
}
NA_DEFAULT = "check not built yet (build in progress; see DESIGN.md section 8)"
NA = {}

def main():
    checks = []
    for pid in props:
        if pid not in CHECKS:
            continue
        c = CHECKS[pid]
        checks.append({"property_id": pid, "quick_cmd": "./check %s --tier quick" % pid, "thorough_cmd": "./check %s --tier thorough" % pid,
                       "evidence_file": "/verif/evidence/%s.json" % pid, "replay_cmd_template": "./check %s --replay {path}" % pid,
                       "engine": "tvh", "level_claimed": {"category": c["cat"], "text": c["text"], "design_ref": c["ref"]},
                       "level_note": c["note"], "technique": c["technique"]})
    hooks = subprocess.run(["git", "-C", "/repo", "log", "--format=%h %s"], stdout=subprocess.PIPE, text=True).stdout.splitlines()
    hook_commits = [l.split()[0] for l in hooks if l.split(" ", 1)[1].startswith("verif hooks")]
    m = {"version": 1, "setup_cmd": "./setup.sh",
         "hooks": {"guard": "--cfg tsrun_verif", "enable": "RUSTFLAGS='--cfg tsrun_verif' (set by vlib/core.py and setup.sh for every harness build; CARGO_TARGET_DIR=/verif/target)",
                   "baseline_off_cmd": "cd /repo && cargo test --workspace --no-fail-fast --offline", "source_commits": hook_commits, "add_only": True},
         "engines": [{"name": "tvh", "path": "/verif/harness", "serves_properties": sorted(CHECKS), "kind_free_text": "Rust harness linking the real tsrun crate (path dependency on /repo, hooks on): batch program runner + explicit-state explorers + exhaustive enumerators; orchestrated by ./check (Python)"}],
         "checks": checks,
         "notes": "See DESIGN.md. Every check is ./check <ID> --tier quick|thorough; exit 0 held (KNOWN-FINDING lines for recorded defects) / 1 VIOLATION / 2 machinery error. Known findings: known_findings/<ID>.json (+ .cases.gz).",
         "not_applicable": [{"property_id": p, "reason": NA.get(p, NA_DEFAULT)} for p in props if p not in CHECKS]}
    json.dump(m, open(os.path.join(ROOT, "MANIFEST.json"), "w"), indent=1)
    v = subprocess.run(["python3-vt", "-c", "import json,jsonschema,sys;jsonschema.validate(json.load(open('%s/MANIFEST.json')),json.load(open('/root/.vp/MANIFEST.schema.json')));print('MANIFEST valid')" % ROOT])
    sys.exit(v.returncode)
main()
