#!/usr/bin/env python3-vt
import json, jsonschema, sys, glob
sch = json.load(open('/root/.vp/EVIDENCE.schema.json'))
for f in sorted(glob.glob('/verif/evidence/*.json')):
    try:
        jsonschema.validate(json.load(open(f)), sch); print(f, 'valid')
    except Exception as e:
        print(f, 'INVALID', str(e)[:300])
