// Golden builder helper: reads JSONL {id,src,module?} from stdin, evaluates each in a fresh vm context,
// prints JSONL observations shaped like the harness' (status,value,err,log).
const vm = require('vm'); const rl = require('readline').createInterface({input: process.stdin, crlfDelay: Infinity});
function shownum(n){ if(n!==n)return 'n:NaN'; if(n===0)return Object.is(n,-0)?'n:-0':'n:0'; if(n===Infinity)return 'n:Infinity'; if(n===-Infinity)return 'n:-Infinity';
  let s=n.toExponential(); // rust {:e} prints shortest digits too: 1.5e0, 1e21, 1.2e-7
  s=s.replace('e+','e'); return 'n:'+s; }
function show(v){ if(v===undefined)return 'undefined'; if(v===null)return 'null'; const t=typeof v; if(t==='boolean')return String(v); if(t==='number')return shownum(v); if(t==='string')return 's:'+v; if(t==='symbol')return 'symbol'; return 'o:?'; }
rl.on('line', line => { if(!line.trim())return;
  const v = JSON.parse(line); const log = [];
  const con = {}; for (const k of ['log','error','warn','info','debug']) con[k] = (...a) => log.push(a.map(x => typeof x === 'string' ? x : '<nonstring>').join(' '));
  const ctx = vm.createContext({console: con});
  let out = {id: v.id, status:'', value:'', err:'', log: log};
  try { const r = vm.runInContext(v.src, ctx, {timeout: 3000}); out.status='ok'; out.value = show(r); }
  catch (e) { if (e && e.code==='ERR_SCRIPT_EXECUTION_TIMEOUT') { out.status='budget'; } else { out.status='err';
      // error objects of any realm have string name/message/stack; anything else is a thrown non-error
      out.err = (e !== null && typeof e === 'object' && typeof e.name==='string' && typeof e.message==='string' && typeof e.stack==='string') ? e.name : 'Thrown'; } }
  // programs marked /*async*/ are observed after their promise reactions have run (the log array is shared)
  if (v.src.includes('/*async*/')) setImmediate(() => console.log(JSON.stringify(out))); else console.log(JSON.stringify(out));
});
