"""C05 — every source text is accepted or rejected cleanly, in bounded time.
Exhaustive token soups (in-process enumerator), every depth of every nesting family (isolated
workers, ordinary 8 MiB stack), every prefix / single-token deletion / replacement of a corpus of valid
programs, and all 1-2 character strings over a character alphabet inside each lexical context.
Oracle: prepare() returns Ok or Err; never a panic, a dead worker, or more parser work than
64*len^2+4096 token advances (hook H2; deterministic)."""
import itertools, json, os, re, sys
from . import core, gen01

PID = "C05"

NEST = {
    # shapes where a speculative parse (arrow parameters, generic arrow, type arguments) can be repeated per level
    'angle-assert-paren': lambda n: 'var r = ' + '<A>(' * n + '1' + ')' * n, 'cond-assignparen': lambda n: 'var r = ' + 'c ? (a = ' * n + '1' + ') : 2' * n, 'assignparen-slash': lambda n: 'var r = ' + '(a = ' * n + '1/2' + ')' * n,
    'assignparen-template': lambda n: 'var r = ' + '(a = ' * n + '`t`' + ')' * n, 'truncated-default-function': lambda n: '(a = function () { ' * n + '1', 'truncated-default-arrow': lambda n: '(a = () => { ' * n + '1',
    'truncated-default-method': lambda n: '(a = { m() { ' * n + '1', 'closed-default-function': lambda n: '(a = function () { ' * n + '1' + ' })' * n, 'default-function-then-colon': lambda n: 'var r = ' + 'c ? (a = function () { return ' * n + '1' + ' }) : 2' * n,
    'generic-arrow-nest': lambda n: 'var r = ' + '<T>(a = ' * n + '1' + ') => a' * n, 'lt-chain': lambda n: 'a' + '<a' * n, 'generic-call-chain': lambda n: 'f' + '<A>(1)' * n,
    # type-level prefix operators and chains
    'keyof-type': lambda n: 'type K = ' + 'keyof ' * n + 'A;', 'readonly-type': lambda n: 'type K = ' + 'readonly ' * n + 'A[];', 'neg-literal-type': lambda n: 'type K = ' + '- ' * 1 + '1' + ' | -1' * n + ';', 'array-suffix-type': lambda n: 'type K = A' + '[]' * n + ';',
    'indexed-type': lambda n: "type K = A" + "['a']" * n + ';', 'intersection-type': lambda n: 'let x: ' + 'a&' * n + 'b;', 'typeof-qualified': lambda n: 'let x: typeof a' + '.b' * n + ';', 'tuple-named': lambda n: 'let x: [' + ','.join('m%d?: number' % i for i in range(n + 1)) + '];',
    'import-type': lambda n: "let x: import('./m')" + '.T' * n + ';', 'fn-type-generic': lambda n: 'let x: ' + '<U>(a: U) => ' * n + 'void;', 'overloads': lambda n: 'function f(a: number): void;\n' * n + 'function f(a: any) {}',
    'nullish-chain': lambda n: 'a' + '??a' * n + '??1', 'or-chain': lambda n: 'a' + '||a' * n,
    'paren': lambda n: '(' * n + '1' + ')' * n, 'array': lambda n: '[' * n + ']' * n, 'object': lambda n: 'x=' + '{a:' * n + '1' + '}' * n,
    'block': lambda n: '{' * n + '}' * n, 'unary': lambda n: '!' * n + '1', 'unary-minus': lambda n: '- ' * n + '1', 'typeof': lambda n: 'typeof ' * n + '1',
    'binary-right': lambda n: '1' + '**2' * n, 'binary-left': lambda n: '1' + '+1' * n, 'logical': lambda n: 'a' + '&&a' * n, 'nullish': lambda n: 'a' + '??a' * n,
    'cond': lambda n: '1?' * n + '0' + ':0' * n, 'cond-right': lambda n: '1?0:' * n + '0', 'arrow': lambda n: 'x=>' * n + '1', 'call': lambda n: 'f' + '()' * n, 'member': lambda n: 'a' + '.b' * n,
    'index': lambda n: 'a' + '[0]' * n, 'optional-chain': lambda n: 'a' + '?.b' * n, 'template': lambda n: '`${' * n + '1' + '}`' * n, 'assignparen': lambda n: '(a = ' * n + '1' + ')' * n,
    'assign-chain': lambda n: 'a=' * n + '1', 'fn': lambda n: 'function f(){' * n + '}' * n, 'fn-expr': lambda n: '(function(){return ' * n + '1' + '})' * n, 'class': lambda n: 'class A { m(){ ' * n + '}}' * n,
    'generic-type': lambda n: 'let x: ' + 'Array<' * n + 'number' + '>' * n + ';', 'new': lambda n: 'new ' * n + 'X', 'if': lambda n: 'if(1)' * n + ';', 'if-else': lambda n: 'if(1){}else ' * n + ';',
    'typeparen': lambda n: 'let x: ' + '(' * n + 'number' + ')' * n + ';', 'rest-arrpattern': lambda n: 'let ' + '[...' * n + 'a' + ']' * n + ' = [];', 'rest-arrpattern-param': lambda n: 'function f(' + '[...' * n + 'a' + ']' * n + ') {}', 'rest-objpattern': lambda n: 'let ' + '{...' * 1 + 'r' + '}' + ' = ' + '{a:' * n + '1' + '}' * n + ';',
    'default-arrpattern': lambda n: 'let ' + '[a = ' * n + '1' + ']' * n + ' = [];', 'catch-arrpattern': lambda n: 'try {} catch (' + '[' * n + 'e' + ']' * n + ') {}', 'arrow-param-pattern': lambda n: '(' + '[' * n + 'a' + ']' * n + ') => 1;', 'assign-arrpattern': lambda n: '[' * n + 'a' + ']' * n + ' = 1;',
    'arrpattern': lambda n: 'let ' + '[' * n + 'a' + ']' * n + ' = 1;', 'objpattern': lambda n: 'let ' + '{a:' * n + 'b' + '}' * n + ' = 1;',
    'await': lambda n: 'async function f(){ ' + 'await ' * n + '1 }', 'yield': lambda n: 'function* g(){ ' + 'yield ' * n + '1 }', 'comma': lambda n: '1' + ',1' * n, 'array-elems': lambda n: '[' + '1,' * n + ']',
    'spread': lambda n: '[' + '...' * 1 + '[' * n + ']' * n + ']', 'label': lambda n: ''.join('l%d:' % i for i in range(n)) + ';', 'while': lambda n: 'while(0)' * n + ';', 'for': lambda n: 'for(;;)' * n + 'break;',
    'try': lambda n: 'try{' * n + '}finally{}' * n, 'switch': lambda n: 'switch(1){default:' * n + '}' * n, 'union-type': lambda n: 'let x: ' + 'a|' * n + 'b;', 'fn-type': lambda n: 'let x: ' + '()=>' * n + 'void;',
    'tuple-type': lambda n: 'let x: ' + '[' * n + ']' * n + ';', 'obj-type': lambda n: 'let x: ' + '{a:' * n + 'b' + '}' * n + ';', 'as': lambda n: 'a' + ' as any' * n, 'nonnull': lambda n: 'a' + '!' * n,
    'string-concat': lambda n: "'a'" + "+'a'" * n, 'regex-class': lambda n: '/' + '[a]' * n + '/', 'comment': lambda n: '/*' * n + '*/ 1', 'line-comment': lambda n: '//' * n + '\n1',
    'jsx-like-lt': lambda n: 'a' + '<b' * n, 'arrow-params': lambda n: '(' + 'a,' * n + 'b) => 1', 'default-arrow': lambda n: '(a = ' + '(b = ' * n + '1' + ') => 1' * n + ') => 1', 'paren-arrow-body': lambda n: '() => (' * n + '1' + ')' * n,
    'generic-call': lambda n: 'f' + '<T>' * 1 + '(' * n + ')' * n, 'conditional-type': lambda n: 'type X = ' + 'A extends B ? ' * n + 'C' + ' : D' * n + ';', 'enum-members': lambda n: 'enum E {' + ','.join('M%d' % i for i in range(n + 1)) + '}',
    'arrow-error': lambda n: '(' * n + '@' + ') => 1' * n, 'paren-error': lambda n: '(a = ' * n + '@' + ')' * n, 'generic-nest-call': lambda n: 'f<' + 'A<' * n + 'T' + '>' * n + '>()',
    'lt-paren': lambda n: 'a < (' * n + '1' + ')' * n, 'typed-arrow-error': lambda n: '(a: ' + '(b: ' * n + '@' + ') => 1' * n + ') => 1', 'async-arrow': lambda n: 'async (a = ' * n + '1' + ') => 1' * n, 'call-arrow-arg': lambda n: 'f((a = ' * n + '1' + ') => 1)' * n,
    'template-parts': lambda n: '`' + '${1}' * n + '`', 'object-props': lambda n: 'x={' + ','.join('p%d:1' % i for i in range(n + 1)) + '}', 'params': lambda n: 'function f(' + ','.join('p%d' % i for i in range(n + 1)) + '){}',
}


def depths(tier):
    ds = list(range(1, 41)) + [48, 56, 64, 96, 128, 192, 256, 384, 512, 768, 1024, 1536, 2048, 3072, 4096, 8192]
    if tier != "quick":
        ds += [16384, 32768, 65536, 131072]
    else:
        ds += [32768]   # one rung far beyond the parser's own nesting limit (1200): a bypassed guard overflows here
    return ds


TOKEN_RE = re.compile(r"""\s+|//[^\n]*|/\*.*?\*/|`(?:\\.|[^`\\])*`|"(?:\\.|[^"\\])*"|'(?:\\.|[^'\\])*'|[A-Za-z_$][\w$]*|\d[\w.]*|\.\.\.|=>|\?\.|\*\*=?|===|!==|>>>=?|<<=|>>=|&&=?|\|\|=?|\?\?=?|[-+*/%&|^<>=!]=|\+\+|--|<<|>>|[{}()\[\];,.<>+\-*/%&|^!~?:=@#]""", re.S)


def tokenize(src):
    return [t for t in TOKEN_RE.findall(src) if not t.isspace()]


REPL = ["(", ")", "{", "}", "[", "]", ",", ";", "=", "=>", ".", "...", "?", ":", "<", "a", "1", "`", "function", "class", "await", "yield", "let", "of", "in", "as", "*", "#p", "@", "'"]


def corpus():
    out = []
    progs = []
    for fam in ("flow1", "scope", "class", "pattern"):
        cs = gen01.FAMILIES[fam]()
        progs += [c.src.split("\n", 9)[-1] if c.src.startswith("function __num") else c.src for c in cs[:: max(1, len(cs) // 14)]]
    exdir = os.path.join(core.REPO, "examples")
    for root, _, files in sorted(os.walk(exdir)):
        for f in sorted(files):
            if f.endswith(".ts") and len(progs) < 90:
                try:
                    s = open(os.path.join(root, f)).read()
                except Exception:
                    continue
                if len(s) < 2500:
                    progs.append(s)
    return progs


CHARS = ["\u0000", "\t", "\n", "\r", " ", "!", "\"", "#", "$", "'", "\\", "`", "{", "}", "/", "*", "0", "a", "\u007f", "\u0080", "\u00a0", "\u00e9", "\u00ff", "\u0100", "\u200b", "\u200d", "\u2028", "\u2029", "\ufeff", "\ufffd", "\ufffe", "\uffff",
         "\ud7ff", "\ue000", "\U00010000", "\U0001f600", "\U0010ffff", "\u0301", "\u1680", "\u3000", "\u00b7", "\u212a"]
CONTEXTS = [("code", "%s"), ("ident", "var a%s = 1"), ("string", "'x%sy'"), ("dstring", "\"x%sy\""), ("template", "`x%sy`"), ("template-expr", "`${1%s}`"), ("regex", "/x%sy/"), ("line-comment", "// x%s\n1"), ("block-comment", "/* x%s */ 1"), ("number", "1%s2"), ("escape", "'\\%s'"), ("after-dot", "a.%s"), ("type", "let x: A%s = 1"), ("unterminated", "'%s")]


NUMCH = ["0", "1", "9", "_", ".", "e", "E", "+", "-", "x", "b", "o", "n", "a", "f"]
ESCCH = ["\\", "u", "x", "{", "}", "0", "1", "f", "g", "'", "\n"]
LITERALS = [("num", "%s", NUMCH), ("num-after-1", "1%s", NUMCH), ("num-after-0", "0%s", NUMCH), ("num-after-1.", "1.%s", NUMCH), ("num-after-1e", "1e%s", NUMCH), ("num-after-dot", ".%s", NUMCH), ("num-in-expr", "x = 2%s;", NUMCH),
            ("esc-string", "'\\%s'", ESCCH), ("esc-template", "`\\%s`", ESCCH), ("esc-regex", "/\\%s/", ESCCH), ("esc-ident", "var a\\%s = 1", ESCCH)]


def run(tier, seed):
    chk = core.Check(PID, tier, seed, "exploration")
    fam = {}
    total = 0
    nontrivial = 0
    # ---- token soups
    soups = [("soup<=3/89-token vocabulary", 3, None)] if tier == "quick" else [("soup<=4/89-token vocabulary", 4, None), ("soup<=5/30-token vocabulary", 5, "small")]
    if tier == "quick":
        soups.append(("soup<=4/30-token vocabulary", 4, "small"))
    for name, L, sub in soups:
        res = core.tvh_shards(lambda k, n: ["c05", "soup", L, k, n] + ([sub] if sub else []), as_gb=4)
        t = sum(r["total"] for r in res)
        acc = sum(r["accepted"] for r in res)
        fam[name] = {"texts": t, "accepted": acc, "max_parser_work": max(r["max_work"] for r in res)}
        total += t
        nontrivial += acc
        for r in res:
            if "hang" in r:
                chk.fail("soup-hang|" + r["hang"], "hang", "prepare(%r) does not return (lexer/parser stuck without consuming tokens)" % r["hang"], {"kind": "text", "src": r["hang"]}, cluster="soup: hang")
            for b in r.get("bad", []):
                chk.fail("soup|%s|%s" % (b["src"], b["module"]), b["outcome"].split(":")[0], "prepare(%r, module=%s) -> %s (parser work %d)" % (b["src"], b["module"], b["outcome"], b["work"]),
                         {"kind": "text", "src": b["src"]}, cluster="soup: " + b["outcome"][:50])
    # ---- nesting families, corpus mutations, character contexts through the isolated prepare() workers
    cases = []
    for name, f in NEST.items():
        for d in depths(tier):
            cases.append({"id": "nest|%s|%d" % (name, d), "src": f(d)})
    progs = corpus()
    nmut = 0
    for pi, ptxt in enumerate(progs):
        toks = tokenize(ptxt)
        step = 1 if tier != "quick" else max(1, len(toks) // 60)
        for i in range(0, len(toks) + 1, step):
            cases.append({"id": "prefix|%d|%d" % (pi, i), "src": " ".join(toks[:i])})
        for i in range(0, len(toks), step):
            cases.append({"id": "delete|%d|%d" % (pi, i), "src": " ".join(toks[:i] + toks[i + 1:])})
            reps = REPL if tier != "quick" else REPL[(i % 5):: 5]
            for r in reps:
                cases.append({"id": "replace|%d|%d|%s" % (pi, i, r), "src": " ".join(toks[:i] + [r] + toks[i + 1:])})
                if tier != "quick":
                    cases.append({"id": "insert|%d|%d|%s" % (pi, i, r), "src": " ".join(toks[:i] + [r] + toks[i:])})
        nmut += 1
    chars = CHARS if tier != "quick" else CHARS[::2] + ["\u2028", "\U0001f600", "\\"]
    for cname, tpl in CONTEXTS:
        for a in chars:
            cases.append({"id": "char|%s|%r" % (cname, a), "src": tpl % a})
            for b in chars:
                cases.append({"id": "char|%s|%r%r" % (cname, a, b), "src": tpl % (a + b)})
    # literal grammars: every string up to length 3 (thorough 4) over the characters numeric literals and
    # escape sequences are made of, after every literal prefix (the lexer's digit / separator / exponent /
    # radix / escape loops each have their own advance logic)
    L = 3 if tier == "quick" else 4
    for cname, tpl, alpha in LITERALS:
        for n in range(1, L + 1):
            for t in itertools.product(alpha, repeat=n):
                w = "".join(t)
                cases.append({"id": "literal|%s|%s" % (cname, w), "src": tpl % w})
    seen = set()
    uniq = []
    for c in cases:
        if c["id"] not in seen:
            seen.add(c["id"])
            uniq.append(c)
    # the deep-nesting texts are few and each death there is an observation of its own; the mass families are cut
    # short once a tree has killed or hung the worker four times in a shard
    nest_cases = [c for c in uniq if c["id"].startswith("nest|")]
    res = core.run_batch([c for c in uniq if not c["id"].startswith("nest|")], sub_args=("c05", "prep"), hang_s=30, as_gb=4, max_deaths=4)
    # (the deepest thorough rungs are megabyte-sized texts: the unoptimised build needs up to 40 s alone for the
    # speculation-heavy families although the work stays within the bound, so the wall-clock cap is wider there)
    res.update(core.run_batch(nest_cases, sub_args=("c05", "prep"), hang_s=30 if tier == "quick" else 180, as_gb=4))
    counts = {}
    skipped = 0
    for c in uniq:
        o = res[c["id"]]
        if o["status"] == "skipped":
            skipped += 1
            continue
        kind = c["id"].split("|")[0]
        total += 2
        counts.setdefault(kind, [0, 0])
        counts[kind][0] += 1
        bad = None
        if o["status"].startswith("death") or o["status"] == "hang":
            bad = o["status"].split(":")[0]
        else:
            for st in (o["status"], o["value"]):
                if st == "ok":
                    nontrivial += 1
                elif st.startswith("panic") or st == "budget":
                    bad = st
        if bad:
            counts[kind][1] += 1
            if kind == "nest":
                _, name, d = c["id"].split("|")
                cl = "nesting family %s: %s" % (name, "native stack overflow / abort" if bad in ("death", "hang") else bad[:60])
                title = "prepare(%s nested %s deep) -> %s" % (name, d, bad)
            else:
                cl = "%s: %s" % (kind, bad[:60])
                title = "prepare(%r) -> %s" % (c["src"][:120], bad)
            chk.fail("prep|" + c["src"], bad.split(":")[0], title, {"kind": "text", "src": c["src"] if len(c["src"]) < 20000 else None, "gen": c["id"]}, cluster=cl)
    for k, (n, b) in counts.items():
        fam[k] = {"texts": n, "bad": b}
    chk.coverage = {"evaluations": total, "distinct_nontrivial": nontrivial, "families": fam, "nesting_families": len(NEST), "max_depth": depths(tier)[-1], "corpus_programs": len(progs),
                    "samples": [{"soup": "`t${ ( a"}, {"nest": "assignparen depth 24: " + NEST["assignparen"](3) + " ..."}, {"mutation": uniq[len(uniq) // 2]["src"][:120]}],
                    "rule": "all token strings up to the stated length over the stated vocabulary (joined with and without spaces, script and module mode); every depth in the stated list for each of %d nesting families; every prefix, single-token deletion and replacement (thorough: insertion) of each corpus program; all 1- and 2-character strings over a %d-character alphabet in %d lexical contexts; all strings up to length 3 (thorough 4) over the numeric-literal and escape-sequence alphabets after each of 11 literal prefixes; non-trivial = texts accepted by prepare()" % (len(NEST), len(CHARS), len(CONTEXTS))}
    chk.assumptions = ["parser work is measured in token advances (hook H2); the bound 64*len^2+4096 uses the character count as an upper bound of the token count", "workers run with the ordinary 8 MiB stack and a 4 GiB address-space limit",
                       "inputs are valid UTF-8 (the API takes &str); ill-formed byte sequences cannot reach prepare()"]
    if skipped:
        chk.coverage["texts_not_run_after_repeated_worker_deaths"] = skipped
    return chk.finish(exhaustive=(skipped == 0))


def replay(path):
    rp = json.load(open(path))
    src = rp.get("src")
    if src is None:
        kind, name, d = rp["gen"].split("|")
        src = NEST[name](int(d))
    r = core.run_batch([{"id": "r", "src": src}], sub_args=("c05", "prep"), hang_s=60, as_gb=4)["r"]
    print("script: %s, module: %s, parser work %s" % (r["status"], r["value"], r["steps"]))
    if r["status"].startswith(("death", "hang", "panic", "budget")) or str(r["value"]).startswith(("panic", "budget")):
        print("VIOLATION property=C05 replay=%s" % path)
        return 1
    return 0
