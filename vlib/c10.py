"""C10 — meaning does not depend on size. Every size n of each construct family (dense windows around
the internal widths, alone and embedded between live temporaries) is compiled and run; the program is
self-checking against the closed form the generator knows. Accepted outcomes: the closed-form value, or
(for a single oversized construct only) an explicit error from prepare() before anything runs."""
import json, sys
from . import core

PID = "C10"


def J(items, sep=","):
    return sep.join(items)


# Each family: name -> (kind, fn(n) -> (source, expected string)); kind 'construct' may be refused by
# prepare() with an explicit limit error; kind 'sequence' (the cumulative clause) may not.
def fam_array_literal(n):
    return "var a=[%s]; var s=0; for (var i=0;i<a.length;i++) s+=a[i]; a.length+'|'+s" % J(str(i) for i in range(n)), "%d|%d" % (n, n * (n - 1) // 2)


def fam_array_embedded_call(n):
    return "function g(x,a,y){ return x+'|'+a.length+'|'+(a.length?a[a.length-1]:'e')+'|'+y; } var p='L', q='R'; g(p,[%s],q)" % J(str(i) for i in range(n)), "L|%d|%s|R" % (n, n - 1 if n else "e")


def fam_array_embedded_binary(n):
    return "var a1=7,b1=9; var r=a1+[%s].length+b1; r+'|'+a1+'|'+b1" % J(str(i) for i in range(n)), "%d|7|9" % (16 + n)


def fam_array_in_loop(n):
    return "var t=0; for (const it of [1,2,3]) { var k=it*10; t+=[%s].length+k; } String(t)" % J(str(i) for i in range(n)), str(3 * n + 60)


def fam_object_literal(n):
    return "var o={%s}; var ks=Object.keys(o); var s=0; for (var i=0;i<ks.length;i++) s+=o[ks[i]]; ks.length+'|'+s+'|'+(ks.length?ks[ks.length-1]:'e')" % J("p%d:%d" % (i, i) for i in range(n)), "%d|%d|%s" % (n, n * (n - 1) // 2, "p%d" % (n - 1) if n else "e")


def fam_call_args(n):
    return "function f(){ var s=0; for (var i=0;i<arguments.length;i++) s+=arguments[i]; return arguments.length+'|'+s; } var keep='K'; f(%s)+'|'+keep" % J(str(i) for i in range(n)), "%d|%d|K" % (n, n * (n - 1) // 2)


def fam_method_args(n):
    return "var o={b:5,m:function(){ return arguments.length+'|'+this.b; }}; var x1='X'; x1+o.m(%s)+x1" % J(str(i) for i in range(n)), "X%d|5X" % n


def fam_new_args(n):
    return "function C(){ this.n=arguments.length; this.last=arguments.length?arguments[arguments.length-1]:'e'; } var c=new C(%s); c.n+'|'+c.last" % J(str(i) for i in range(n)), "%d|%s" % (n, n - 1 if n else "e")


def fam_params(n):
    ps = ["p%d" % i for i in range(n)]
    return "function f(%s){ return %s; } String(f(%s))" % (J(ps), "+".join(ps) if ps else "0", J(str(i) for i in range(n))), str(n * (n - 1) // 2)


def fam_params_default_rest(n):
    ps = ["p%d=%d" % (i, i) for i in range(n)]
    return "function f(%s){ return %s+r.length; } String(f())" % (J(ps + ["...r"]), "+".join("p%d" % i for i in range(n)) if n else "0"), str(n * (n - 1) // 2)


def fam_template(n):
    return "var v=3; var s=`%s`; s.length+'|'+s.slice(0,6)" % "".join("${v}" for _ in range(n)), "%d|%s" % (n, ("3" * n)[:6])


def fam_template_text(n):
    return "var v=1; var s=`%s`; String(s.length)" % "".join("a${v}" for _ in range(n)), str(2 * n)


def fam_switch(n):
    cases = "".join("case %d: r='c%d'; break; " % (i, i) for i in range(n))
    return "function f(x){ var r; switch(x){ %sdefault: r='d'; } return r; } f(%d)+'|'+f(0)+'|'+f(-1)" % (cases, n - 1), "%s|%s|d" % ("c%d" % (n - 1) if n else "d", "c0" if n else "d")


def fam_array_pattern(n):
    vs = ["a%d" % i for i in range(n)]
    return "var src=[]; for (var i=0;i<%d;i++) src.push(i); var [%s]=src; String(%s)" % (n, J(vs), "+".join(vs) if vs else "0"), str(n * (n - 1) // 2)


def fam_array_pattern_rest(n):
    vs = ["a%d" % i for i in range(n)]
    return "var src=[]; for (var i=0;i<%d;i++) src.push(i); var [%s]=src; (%s)+'|'+rest.length+'|'+rest[0]" % (n + 3, J(vs + ["...rest"]), "+".join(vs) if vs else "0"), "%d|3|%d" % (n * (n - 1) // 2, n)


def fam_object_pattern(n):
    vs = ["p%d" % i for i in range(n)]
    return "var o={}; for (var i=0;i<%d;i++) o['p'+i]=i; var {%s}=o; String(%s)" % (n, J(vs), "+".join(vs) if vs else "0"), str(n * (n - 1) // 2)


def fam_concat_chain(n):
    return "var s=%s; s.length+'|'+s.charAt(s.length-1)" % ("+".join("'%s'" % "abcdefghij"[i % 10] for i in range(n)) if n else "''"), "%d|%s" % (n, "abcdefghij"[(n - 1) % 10] if n else "")


def fam_add_chain(n):
    return "var one=1; String(%s)" % ("+".join("one" for _ in range(n)) if n else "0"), str(n)


def fam_member_chain(n):
    return "var o={v:'end'}; for (var i=0;i<%d;i++) o={a:o}; String(o%s.v)" % (n, ".a" * n), "end"


def fam_spread_segments(n):
    return "var a=[1,2]; var r=[%s]; r.length+'|'+(r.length?r[r.length-1]:'e')" % J("...a" for _ in range(n)), "%d|%s" % (2 * n, 2 if n else "e")


def fam_class_methods(n):
    return "class C { %s } var c=new C(); var s=0; %s String(s)" % (" ".join("m%d(){ return %d; }" % (i, i) for i in range(n)), "for (var i=0;i<%d;i++) s+=c['m'+i]();" % n), str(n * (n - 1) // 2)


def fam_class_fields(n):
    return "class C { %s } var c=new C(); Object.keys(c).length+'|'+(%s)" % (" ".join("f%d=%d;" % (i, i) for i in range(n)), "c.f%d" % (n - 1) if n else "'e'"), "%d|%s" % (n, n - 1 if n else "e")


def fam_enum_members(n):
    if n == 0:
        return "enum E {} String(Object.keys(E).length)", "0"
    return "enum E { %s } E.M%d+'|'+E[%d]" % (J("M%d" % i for i in range(n)), n - 1, n - 1), "%d|M%d" % (n - 1, n - 1)


def fam_seq_statements(n):
    return "var x=0; %s String(x)" % "".join("x=x+1; " for _ in range(n)), str(n)


def fam_seq_decls(n):
    return "%s var t=0; %s String(t)" % ("".join("var v%d=%d; " % (i, i) for i in range(n)), "t=%s;" % ("v0+v%d" % (n - 1)) if n else ""), str(n - 1 if n else 0)


def fam_seq_lets(n):
    return "{ %s var t=%s; } String(t)" % ("".join("let v%d=%d; " % (i, i) for i in range(n)), "v0+v%d" % (n - 1) if n else "0"), str(n - 1 if n else 0)


def fam_seq_calls(n):
    return "var t=0; function f(a,b){ t+=a+b; } %s String(t)" % "".join("f(%d,1); " % (i % 7) for i in range(n)), str(sum(i % 7 + 1 for i in range(n)))


def fam_seq_method_calls(n):
    return "var o={t:0,m:function(a){ this.t+=a; return this; }}; %s String(o.t)" % "".join("o.m(%d); " % (i % 5) for i in range(n)), str(sum(i % 5 for i in range(n)))


def fam_seq_in_function(n):
    return "function g(){ var t=0; function f(a,b){ t+=a*b; } %s return t; } String(g())" % "".join("f(%d,2); " % (i % 3) for i in range(n)), str(sum(2 * (i % 3) for i in range(n)))


def fam_distinct_constants(n):
    return "var s=0; %s String(s)" % "".join("s+=%d; " % (100000 + i) for i in range(n)), str(sum(100000 + i for i in range(n)))


def fam_distinct_strings(n):
    return "var s=0; %s String(s)" % "".join("s+='k%d'.length; " % i for i in range(n)), str(sum(len("k%d" % i) for i in range(n)))


# sequences of constructs that make the parser speculate (parenthesised groups, arrows, generics, assertions, regexes,
# templates): a per-construct budget that is not given back would add up over a long flat program
def fam_seq_paren_ternary(n):
    return "var r=0, c=true; %s String(r)" % "".join("r += c ? (1) : 2; " for _ in range(n)), str(n)


def fam_seq_paren_object(n):
    return "var r=0, c=true; %s String(r)" % "".join("r += (c ? ({ v: 1 }) : { v: 2 }).v; " for _ in range(n)), str(n)


def fam_seq_switch_paren_case(n):
    return "var r=0, k=1; %s String(r)" % "".join("switch (k) { case (1): r += 1; break; default: r += 2; } " for _ in range(n)), str(n)


def fam_seq_arrows(n):
    return "var r=0; %s String(r)" % "".join("r += ((a, b = 1) => a + b)(%d); " % (i % 3) for i in range(n)), str(sum(i % 3 + 1 for i in range(n)))


def fam_seq_typed_arrows(n):
    return "var r=0; %s String(r)" % "".join("r += ((a: number): number => a)(%d); " % (i % 3) for i in range(n)), str(sum(i % 3 for i in range(n)))


def fam_seq_generic_calls(n):
    return "function id<T>(x: T): T { return x; } var r=0; %s String(r)" % "".join("r += id<number>(%d); " % (i % 3) for i in range(n)), str(sum(i % 3 for i in range(n)))


def fam_seq_assertions(n):
    return "var r=0; %s String(r)" % "".join("r += <number>(%d as any) + ((1) as number); " % (i % 3) for i in range(n)), str(sum(i % 3 + 1 for i in range(n)))


def fam_seq_regex_template(n):
    return "var r=0; %s String(r)" % "".join("r += (/a(b)/.test('ab') ? `${1}`.length : (0)); " for _ in range(n)), str(n)


def fam_seq_destructuring(n):
    return "var r=0; %s String(r)" % "".join("{ const [p, { q = 1 } = {}] = [%d]; r += p + q; } " % (i % 3) for i in range(n)), str(sum(i % 3 + 1 for i in range(n)))


def fam_seq_classes(n):
    return "var r=0; %s String(r)" % "".join("r += new (class { f = 1; m(x: number = 1) { return this.f + x; } })().m(); " for _ in range(n)), str(2 * n)


def fam_seq_try(n):
    return "var r=0; %s String(r)" % "".join("try { r += 1; } catch (e) { r -= 1; } finally { r += 0; } " for _ in range(n)), str(n)


def fam_seq_types(n):
    return "var r=0; %s String(r)" % "".join("type T%d = { a: number } | [string, number?]; interface I%d { (x: number): string } r += 1; " % (i, i) for i in range(n)), str(n)


def fam_jump_distance(n):
    body = "".join("t=t+1; " for _ in range(n))
    return "var t=0; for (var i=0;i<2;i++) { if (i==1) { t+=1000000; continue; } %s } if (t<0) { %s } else { t+=5; } String(t)" % (body, body), str(n + 1000005)


def fam_try_bodies(n):
    return "var t=0; try { %s throw 1; } catch (e) { t+=e; } finally { t+=10; } String(t)" % "".join("t++; " for _ in range(n)), str(n + 11)


def fam_nested_blocks(n):
    return "var t=0; %s t=%d; %s String(t)" % ("{ let s%d=1; " * 1 * 0 + "".join("{ let q%d=%d; " % (i, i) for i in range(n)), n, "}" * n), str(n)


def fam_string_length(n):
    return "var s='x'.repeat(%d); var a=new Array(%d).fill(1); s.length+'|'+a.length+'|'+a.join('').length" % (n, n), "%d|%d|%d" % (n, n, n)


def fam_string_literal(n):
    return "var s='%s'; s.length+'|'+s.charAt(%d)" % ("ab" * n, max(2 * n - 1, 0)), "%d|%s" % (2 * n, "b" if n else "")


FAMS = {
    # register-bound constructs: every n in the dense range
    "array-literal": ("construct", "reg", fam_array_literal), "array-in-call": ("construct", "reg", fam_array_embedded_call), "array-in-binary": ("construct", "reg", fam_array_embedded_binary),
    "array-in-loop": ("construct", "reg", fam_array_in_loop), "object-literal": ("construct", "reg", fam_object_literal), "call-args": ("construct", "reg", fam_call_args), "method-args": ("construct", "reg", fam_method_args),
    "new-args": ("construct", "reg", fam_new_args), "params": ("construct", "reg", fam_params), "params-default-rest": ("construct", "reg", fam_params_default_rest), "template": ("construct", "reg", fam_template),
    "template-text": ("construct", "reg", fam_template_text), "array-pattern": ("construct", "reg", fam_array_pattern), "object-pattern": ("construct", "reg", fam_object_pattern),
    "concat-chain": ("construct", "reg", fam_concat_chain), "add-chain": ("construct", "reg", fam_add_chain), "member-chain": ("construct", "reg", fam_member_chain), "spread-segments": ("construct", "reg", fam_spread_segments),
    "enum-members": ("construct", "reg", fam_enum_members), "nested-blocks": ("construct", "reg", fam_nested_blocks),
    # instruction/constant-bound: sparse up to 70000
    "switch-cases": ("construct", "big", fam_switch), "class-methods": ("construct", "big", fam_class_methods), "class-fields": ("construct", "big", fam_class_fields),
    "seq-statements": ("sequence", "big", fam_seq_statements), "seq-var-decls": ("sequence", "big", fam_seq_decls), "seq-let-decls": ("sequence", "big", fam_seq_lets), "seq-calls": ("sequence", "big", fam_seq_calls),
    "seq-method-calls": ("sequence", "big", fam_seq_method_calls), "seq-calls-in-function": ("sequence", "big", fam_seq_in_function), "distinct-constants": ("sequence", "big", fam_distinct_constants),
    "distinct-strings": ("sequence", "big", fam_distinct_strings), "jump-distance": ("sequence", "big", fam_jump_distance), "try-body": ("sequence", "big", fam_try_bodies),
    "seq-paren-ternary": ("sequence", "seq", fam_seq_paren_ternary), "seq-paren-object": ("sequence", "seq", fam_seq_paren_object), "seq-switch-paren-case": ("sequence", "seq", fam_seq_switch_paren_case),
    "seq-arrows": ("sequence", "seq", fam_seq_arrows), "seq-typed-arrows": ("sequence", "seq", fam_seq_typed_arrows), "seq-generic-calls": ("sequence", "seq", fam_seq_generic_calls), "seq-assertions": ("sequence", "seq", fam_seq_assertions),
    "seq-regex-template": ("sequence", "seq", fam_seq_regex_template), "seq-destructuring": ("sequence", "seq", fam_seq_destructuring), "seq-classes": ("sequence", "seq", fam_seq_classes), "seq-try": ("sequence", "seq", fam_seq_try),
    "seq-type-declarations": ("sequence", "seq", fam_seq_types),
    "string-array-length": ("runtime", "big", fam_string_length), "string-literal": ("construct", "big", fam_string_literal),
}


def sizes(kind, tier):
    if kind == "seq":
        # lengths around the parser's nesting limit (1200) and its multiples/fractions, and a ladder
        base = {1, 2, 50, 300, 599, 600, 601, 1199, 1200, 1201, 1500, 2400, 2500}
        if tier != "quick":
            base |= set(range(590, 611)) | set(range(1190, 1211)) | {3600, 5000, 10000, 20000}
        return sorted(base)
    if kind == "reg":
        if tier == "quick":
            return sorted(set(list(range(0, 12)) + list(range(120, 136)) + list(range(246, 262)) + [300, 400, 511, 512, 513, 600]))
        return list(range(0, 601))
    base = set(list(range(0, 20)) + list(range(120, 136)) + list(range(250, 262)))
    if tier == "quick":
        base |= {300, 1000, 4096, 32767, 32768, 32769, 65534, 65535, 65536, 65537, 70000}
    else:
        base |= set(range(0, 301)) | set(range(216, 297)) | set(range(65496, 65577)) | set(range(32728, 32809)) | {512, 1000, 2000, 4096, 8192, 10000, 16384, 20000, 40000, 50000, 70000, 100000}
    return sorted(base)


def run(tier, seed):
    chk = core.Check(PID, tier, seed, "exploration")
    cases = []
    exp = {}
    meta = {}
    for name, (kind, sk, fn) in FAMS.items():
        for n in sizes(sk, tier):
            src, want = fn(n)
            cid = "%s|%d" % (name, n)
            cases.append({"id": cid, "src": src, "budget": 30_000_000, "vm_budget": 200_000_000})
            exp[cid] = "s:" + want
            meta[cid] = (name, kind, n)
    total = 0
    fam = {}
    accepted = set()
    for profile in ("chk", "rel"):
        res = core.run_batch(cases, profile=profile, hang_s=120, as_gb=4)
        for c in cases:
            o = res[c["id"]]
            name, kind, n = meta[c["id"]]
            total += 1
            f = fam.setdefault(name, {"sizes": 0, "ok": 0, "refused": 0, "bad": 0, "first_refused": None})
            f["sizes"] += 1
            prepare_err = o["status"] == "err" and o.get("steps", 0) == 0 and not o.get("trace")
            if o["status"] == "ok" and o["value"] == exp[c["id"]]:
                f["ok"] += 1
                accepted.add(c["id"])
                continue
            if prepare_err and kind == "construct":
                f["refused"] += 1
                if f["first_refused"] is None or n < f["first_refused"]:
                    f["first_refused"] = n
                continue
            f["bad"] += 1
            got = core.obs_core(o) if o["status"] != "ok" else o["value"]
            what = "refused by prepare() although every part is accepted on its own (cumulative limit): %s" % o.get("msg", "")[:80] if prepare_err else "gives %s, expected %s" % (got[:100], exp[c["id"]])
            chk.fail("%s|%s" % (profile, c["id"]), ("refused" if prepare_err else got)[:200], "%s of size %d [%s build] %s" % (name, n, profile, what),
                     {"family": name, "n": n, "profile": profile, "src": c["src"] if len(c["src"]) < 30000 else None, "expected": exp[c["id"]]},
                     cluster=("cumulative limit: " + (o.get("msg", "").split("|")[0].split(":")[-1].strip()[:50])) if prepare_err else "%s: %s" % (name, ("wrong result or failure: " + (o["status"] if o["status"] != "ok" else "wrong value"))))
    chk.coverage = {"evaluations": total, "distinct_nontrivial": len(accepted), "families": fam, "samples": [{"family": "array-in-call", "n": 3, "src": fam_array_embedded_call(3)[0]}, {"family": "seq-calls", "n": 2, "src": fam_seq_calls(2)[0]}],
                    "rule": "every size n in the dense windows (0..600 for register-bound constructs in the thorough tier; windows around 2^7, 2^8, 2^15, 2^16 and a doubling ladder to 70000/100000 for instruction- and constant-bound families) of %d construct families, alone and embedded between live temporaries, in the overflow-checked (chk) and the release-like (rel) build; oracle = closed-form result, or an explicit prepare() error for a single oversized construct; 'sequence' families (the cumulative clause) must never be refused; non-trivial = distinct (family,size) accepted and correct" % len(FAMS)}
    chk.assumptions = ["a prepare() error before any step is an 'explicit limit error'", "families of kind 'sequence' consist of parts that are each accepted alone, so any refusal is cumulative"]
    return chk.finish(exhaustive=True)


def replay(path):
    rp = json.load(open(path))
    name, kind, fn = rp["family"], FAMS[rp["family"]][0], FAMS[rp["family"]][2]
    src, want = fn(rp["n"])
    o = core.run_batch([{"id": "r", "src": src, "budget": 30_000_000, "vm_budget": 200_000_000}], profile=rp.get("profile", "chk"), hang_s=120, as_gb=4)["r"]
    print("status=%s value=%s msg=%s expected=s:%s" % (o["status"], o["value"][:100], o.get("msg", "")[:100], want))
    prepare_err = o["status"] == "err" and o.get("steps", 0) == 0
    if (o["status"] == "ok" and o["value"] == "s:" + want) or (prepare_err and kind == "construct"):
        return 0
    print("VIOLATION property=C10 replay=%s" % path)
    return 1
