"""C13 — the collector implements guard reachability exactly and memory-safely.
Explicit-state exploration of the real Heap/Guard/Gc code against a plain reachability model
(harness/src/c13.rs). Every transition executes the real operation; state key = model + heap dump."""
import json, sys
from concurrent.futures import ThreadPoolExecutor
from . import core

PID = "C13"


def prefixes(tier):
    ps = [("empty", [])]
    ps.append(("one-guard", ["NewGuard"]))
    ns = [255, 256, 257] if tier == "quick" else [254, 255, 256, 257, 258, 511, 512, 513]
    for n in ns:
        for s in range(4):
            ps.append(("bulk%d-shape%d" % (n, s), ["Bulk(%d,%d)" % (n, s)]))
    for n in ([256] if tier == "quick" else [255, 256, 257, 512]):
        ps.append(("garbage%d-collected-refill" % n, ["Bulk(%d,3)" % n, "Collect", "Bulk(3,0)"]))
        ps.append(("cycle%d-unrooted" % n, ["Bulk(%d,2)" % n, "Clear(0)"]))
    # thousands of objects behind one guard: root lists that outgrow 4 chunks' worth of capacity (Vec growth steps
    # 1024 -> 2048 -> 4096 -> 8192), the guard then cleared, dropped (its buffer goes to the guard pool) and a new guard created
    for n in ([1025, 4097] if tier == "quick" else [1023, 1024, 1025, 2047, 2048, 2049, 4097]):
        for s in (0, 3):
            ps.append(("bulk%d-shape%d" % (n, s), ["Bulk(%d,%d)" % (n, s)]))
        ps.append(("bigguard%d-dropped" % n, ["Bulk(%d,1)" % n, "DropGuard(0)"]))
        ps.append(("bigguard%d-dropped-collected" % n, ["Bulk(%d,2)" % n, "DropGuard(0)", "Collect"]))
    for n in ([16, 17] if tier == "quick" else [14, 15, 16, 17, 18, 20]):
        ps.append(("guardchurn%d" % n, ["GuardChurn(%d)" % n]))
        ps.append(("guardchurn%d-collected" % n, ["GuardChurn(%d)" % n, "Collect", "NewGuard"]))
    return ps


def plan(tier):
    jobs = []  # (name, prefix, depth, maxg, maxh, maxo, profile)
    if tier == "quick":
        jobs.append(("empty", [], 7, 2, 4, 3, "chk"))
        jobs.append(("one-guard", ["NewGuard"], 7, 2, 4, 3, "chk"))
        jobs.append(("one-guard-3g", ["NewGuard"], 6, 3, 4, 4, "chk"))
        for name, p in prefixes(tier)[2:]:
            jobs.append((name, p, 2, 2, 4, 100000, "chk"))
    else:
        jobs.append(("empty", [], 9, 2, 4, 3, "chk"))
        jobs.append(("one-guard", ["NewGuard"], 8, 2, 4, 3, "chk"))
        jobs.append(("one-guard-3g-5h-4o", ["NewGuard"], 7, 3, 5, 4, "chk"))
        jobs.append(("asan-empty", [], 8, 2, 4, 3, "asan"))
        jobs.append(("asan-3g", ["NewGuard"], 6, 3, 5, 4, "asan"))
        for name, p in prefixes(tier)[2:]:
            jobs.append((name, p, 3, 2, 4, 100000, "chk"))
            if name.startswith("bulk256") or name.startswith("guardchurn17"):
                jobs.append(("asan-" + name, p, 2, 2, 4, 100000, "asan"))
    return jobs


def build_asan():
    import os, subprocess, time
    exe = os.path.join(core.TARGET, "asan", "x86_64-unknown-linux-gnu", "chk", "tvh")
    env = core.cargo_env()
    env["RUSTFLAGS"] = "--cfg tsrun_verif -Zsanitizer=address"
    env["CARGO_TARGET_DIR"] = os.path.join(core.TARGET, "asan")
    t0 = time.time()
    r = subprocess.run(["cargo", "+nightly", "build", "--offline", "--profile", "chk", "--quiet", "--target", "x86_64-unknown-linux-gnu"],
                       cwd=os.path.join(core.ROOT, "harness"), env=env, stdout=subprocess.PIPE, stderr=subprocess.STDOUT, text=True)
    if r.returncode != 0 or not os.path.exists(exe):
        sys.stderr.write(r.stdout[-3000:])
        raise core.MachineryError("ASan harness build failed")
    sys.stderr.write("[build asan %.1fs]\n" % (time.time() - t0))
    return exe


def run_job(job, exes):
    import subprocess
    name, prefix, depth, maxg, maxh, maxo, profile = job
    cap = 6_000_000
    cmd = [exes[profile], "c13", "explore", str(depth), str(maxg), str(maxh), str(maxo), str(cap), json.dumps(prefix)]
    r = subprocess.run(cmd, stdout=subprocess.PIPE, stderr=subprocess.PIPE, text=True, preexec_fn=core.limits(as_gb=0 if profile == "asan" else 24))
    if r.returncode != 0:
        # a crash of the explorer process itself (ASan report, segfault) while exploring is an observation
        return {"crash": r.returncode, "stderr": r.stderr[-1500:], "job": name}
    d = json.loads(r.stdout.strip().splitlines()[-1])
    d["job"] = name
    return d


def run(tier, seed):
    chk = core.Check(PID, tier, seed, "model_checking")
    exes = {"chk": core.build("chk")}
    jobs = plan(tier)
    if any(j[6] == "asan" for j in jobs):
        exes["asan"] = build_asan()
    with ThreadPoolExecutor(max_workers=core.NCPU) as ex:
        res = list(ex.map(lambda j: run_job(j, exes), jobs))
    states = trans = replays = 0
    maxd = 0
    capped = []
    outcomes = 0
    samples = []
    perjob = {}
    for job, d in zip(jobs, res):
        if "crash" in d:
            key = "crash|%s|%s" % (job[0], job[6])
            chk.fail(key, "explorer process died rc=%s" % d["crash"], "C13 explorer died (memory error?) in job %s: %s" % (job[0], d["stderr"][-300:].replace("\n", " ")),
                     {"kind": "explore", "job": list(job)})
            continue
        states += d["states"]; trans += d["transitions"]; replays += d["replays"]
        maxd = max(maxd, d["max_depth"]); outcomes = max(outcomes, d["distinct_outcomes"])
        if d["capped"]:
            capped.append(job[0])
        perjob[job[0]] = {"depth": job[2], "bounds": list(job[3:6]), "profile": job[6], "states": d["states"], "transitions": d["transitions"], "per_depth": d["per_depth"]}
        for v in d["violations"]:
            key = "hist|%s|%s" % (",".join(v["prefix"]), ",".join(v["history"]))
            chk.fail(key, v["error"], "after %s: %s" % (" ".join(v["prefix"] + v["history"]), v["error"]),
                     {"kind": "history", "prefix": v["prefix"], "history": v["history"], "expected": "model agreement", "profile": job[6]})
    samples = [["NewGuard", "Alloc(0)", "Clear(0)", "CloneH(0)", "Collect", "Alloc(0)", "DropH(0)", "DropH(1)"],
               ["Bulk(256,2)", "Clear(0)", "Collect", "Alloc(0)"], ["GuardChurn(17)", "Collect", "NewGuard", "Alloc(0)", "DropHeap", "DropH(0)"]]
    chk.coverage = {"states": states, "transitions": trans, "traces_validated_against_impl": replays, "max_depth": maxd,
                    "distinct_outcomes": outcomes, "jobs": perjob, "caps_hit": capped, "samples": samples,
                    "rule": "BFS over operation histories of the public Heap/Guard/Gc API; every transition executes the real operation on a heap re-materialised by replay; state key = (model, per-slot dump incl. ref counts/generations/free list/guard roots); oracle = reachability model after every operation + exact live count and pooled set after every collection + empty stale-dereference log"}
    chk.assumptions = ["harness Node type {v, refs}; stale handles are only cloned/dropped (never dereferenced)", "automatic collections are detected via the collection-count hook, not predicted",
                       "memory safety is observed by AddressSanitizer in the thorough tier only"]
    return chk.finish(exhaustive=not capped)


def replay(path):
    rp = json.load(open(path))
    if rp.get("kind") != "history":
        print("replay: re-run the job %s with ./check C13 --tier thorough" % rp.get("job"))
        return 2
    d = core.tvh_json(["c13", "replay", json.dumps({"prefix": rp["prefix"], "history": rp["history"]})])
    if not d.get("deterministic"):
        sys.stderr.write("MACHINERY ERROR: nondeterministic replay\n")
        return 2
    if d.get("violation"):
        print("VIOLATION property=C13 replay=%s" % path)
        print("#   op #%s: %s" % (d.get("at"), d["violation"]))
        return 1
    print("replay: history agrees with the model")
    return 0
