"""Shared orchestration: build, worker pool with death attribution, evidence, known findings.

Exit codes: 0 held (possibly KNOWN-FINDING lines), 1 VIOLATION, 2 machinery error.
"""
import gzip, hashlib, json, os, select, signal, subprocess, sys, threading, time, zlib

ROOT = os.path.dirname(os.path.dirname(os.path.abspath(__file__)))
REPO = os.environ.get("TSRUN_REPO", "/repo")
TARGET = os.path.join(ROOT, "target")
CACHE = os.path.join(ROOT, "cache")
NCPU = min(16, os.cpu_count() or 4)


class MachineryError(Exception):
    pass


def sha(s, n=10):
    if isinstance(s, str):
        s = s.encode("utf-8", "surrogatepass")
    return hashlib.sha1(s).hexdigest()[:n]


def cargo_env():
    env = dict(os.environ)
    env["RUSTFLAGS"] = "--cfg tsrun_verif"
    env["CARGO_TARGET_DIR"] = TARGET
    env["CARGO_NET_OFFLINE"] = "true"
    env.pop("RUSTC_WRAPPER", None)
    return env


_built = {}


def build(profile="chk"):
    """Incremental offline build of the harness against /repo's current working tree."""
    if profile in _built:
        return _built[profile]
    t0 = time.time()
    cmd = ["cargo", "build", "--offline", "--profile", profile, "--quiet"]
    r = subprocess.run(cmd, cwd=os.path.join(ROOT, "harness"), env=cargo_env(),
                       stdout=subprocess.PIPE, stderr=subprocess.STDOUT, text=True)
    if r.returncode != 0:
        sys.stderr.write(r.stdout[-4000:])
        raise MachineryError("harness build failed (profile %s)" % profile)
    path = os.path.join(TARGET, profile, "tvh")
    if not os.path.exists(path):
        raise MachineryError("harness binary missing: " + path)
    _built[profile] = path
    sys.stderr.write("[build %s %.1fs]\n" % (profile, time.time() - t0))
    return path


def limits(stack_kb=8192, as_gb=4):
    def f():
        import resource
        resource.setrlimit(resource.RLIMIT_STACK, (stack_kb * 1024, stack_kb * 1024))
        if as_gb:
            resource.setrlimit(resource.RLIMIT_AS, (as_gb << 30, as_gb << 30))
        resource.setrlimit(resource.RLIMIT_CORE, (0, 0))
    return f


def tvh(args, profile="chk", stdin_text=None, timeout=3600, check=True, as_gb=8):
    """Run one tvh subcommand to completion; returns (returncode, stdout)."""
    exe = build(profile)
    r = subprocess.run([exe] + [str(a) for a in args], input=stdin_text, stdout=subprocess.PIPE,
                       stderr=subprocess.PIPE, text=True, timeout=timeout, preexec_fn=limits(as_gb=as_gb))
    if check and r.returncode != 0:
        sys.stderr.write(r.stderr[-3000:])
        raise MachineryError("tvh %s exited %d" % (" ".join(map(str, args[:3])), r.returncode))
    return r.returncode, r.stdout


def tvh_json(args, **kw):
    """Run a subcommand whose last stdout line is a JSON summary."""
    rc, out = tvh(args, **kw)
    lines = [l for l in out.splitlines() if l.strip()]
    if not lines:
        raise MachineryError("tvh %s produced no output" % args[0])
    try:
        return json.loads(lines[-1])
    except Exception:
        raise MachineryError("tvh %s: last line is not JSON: %r" % (args[0], lines[-1][:200]))


# ---------------------------------------------------------------------------------------------
# Worker pool for JSONL case batches with death/hang attribution
# ---------------------------------------------------------------------------------------------

def _worker(exe, sub_args, cases, results, idx, hang_s, as_gb, stack_kb, max_deaths=0):
    """Feed `cases` (list of dict with 'id') to one worker; on death attribute to the case in flight.
    Input and output go through files; the parent only watches output growth (hang detection)."""
    os.makedirs(CACHE, exist_ok=True)
    pos = 0
    ndead = 0
    while pos < len(cases):
        fn = os.path.join(CACHE, "w%d_%d.in" % (os.getpid(), idx))
        fo = os.path.join(CACHE, "w%d_%d.out" % (os.getpid(), idx))
        with open(fn, "w") as f:
            f.write("".join(json.dumps(c) + "\n" for c in cases[pos:]))
        fin = open(fn, "r")
        fout = open(fo, "wb")
        p = subprocess.Popen([exe] + sub_args, stdin=fin, stdout=fout, stderr=subprocess.DEVNULL,
                             preexec_fn=limits(stack_kb=stack_kb, as_gb=as_gb))
        fin.close()
        fout.close()
        dead = None
        last = -1
        while True:
            try:
                p.wait(timeout=hang_s)
                if p.returncode != 0:
                    dead = "death:%d" % p.returncode
                break
            except subprocess.TimeoutExpired:
                sz = os.path.getsize(fo)
                if sz == last:
                    p.kill()
                    p.wait()
                    dead = "hang"
                    break
                last = sz
        inflight = None
        start = pos
        with open(fo, "rb") as f:
            for line in f:
                if line.startswith(b"BEGIN "):
                    inflight = pos
                    continue
                if not line.strip() or not line.endswith(b"\n"):
                    continue
                try:
                    o = json.loads(line)
                except Exception:
                    continue
                if pos < len(cases):
                    results[cases[pos]["id"]] = o
                    pos += 1
                    inflight = None
        if dead is not None:
            k = inflight if inflight is not None else pos
            if k < len(cases):
                results[cases[k]["id"]] = {"id": cases[k]["id"], "status": dead, "value": "", "err": "", "log": [],
                                            "msg": "worker " + dead, "steps": 0, "trace": [], "stale": 0}
                pos = k + 1
                ndead += 1
                if max_deaths and ndead >= max_deaths:
                    # a tree that kills or hangs the worker this often has been convicted already: the rest of
                    # this shard is reported as not run instead of spending hang_s on every further case
                    for c in cases[pos:]:
                        results[c["id"]] = {"id": c["id"], "status": "skipped", "value": "", "err": "", "log": [], "msg": "not run: %d worker deaths/hangs before it in this shard" % ndead, "steps": 0, "trace": [], "stale": 0}
                    pos = len(cases)
            else:
                break
        elif pos < len(cases):
            raise MachineryError("worker stopped early at case %d/%d (started at %d)" % (pos, len(cases), start))
        for x in (fn, fo):
            try:
                os.unlink(x)
            except OSError:
                pass


def run_batch(cases, sub_args=("run",), profile="chk", nworkers=None, hang_s=20, as_gb=1, stack_kb=8192, max_deaths=0):
    """Run cases (dicts with unique 'id') over a pool; returns {id: observation}."""
    exe = build(profile)
    nworkers = nworkers or NCPU
    nworkers = max(1, min(nworkers, len(cases)))
    shards = [cases[i::nworkers] for i in range(nworkers)]
    results = {}
    errs = []

    def go(i):
        try:
            _worker(exe, list(sub_args), shards[i], results, i, hang_s, as_gb, stack_kb, max_deaths)
        except Exception as e:  # noqa
            errs.append(e)

    ths = [threading.Thread(target=go, args=(i,)) for i in range(nworkers)]
    for t in ths:
        t.start()
    for t in ths:
        t.join()
    if errs:
        raise MachineryError(str(errs[0]))
    if len(results) != len(cases):
        raise MachineryError("lost results: %d of %d" % (len(results), len(cases)))
    return results


def obs_core(o):
    """The compared part of an observation: status, value, error class, log."""
    if str(o.get("status", "")).startswith("death"):
        return "death|||[]"  # the signal depends on how the limit was hit; the class is what is compared
    return "%s|%s|%s|%s" % (o.get("status"), o.get("value"), o.get("err"), json.dumps(o.get("log", [])))


# ---------------------------------------------------------------------------------------------
# Known findings
# ---------------------------------------------------------------------------------------------

class Known:
    """known_findings/<ID>.json + <ID>.cases.gz (lines: casekey obsdigest finding-id).

    A failing case is attributed to a finding only if (case key, wrong-observation digest) is
    listed; obsdigest '*' is allowed only for the class matchers named in the finding
    (death/hang/order-only), where the observation is a class by nature.
    """

    def __init__(self, pid):
        self.pid = pid
        self.findings = {}
        self.fixed = []
        self.cases = {}
        p = os.path.join(ROOT, "known_findings", pid + ".json")
        if os.path.exists(p):
            d = json.load(open(p))
            for f in d.get("findings", []):
                self.findings[f["id"]] = f
            self.fixed = d.get("fixed", [])
            for f in d.get("findings", []):
                for c in f.get("inline_cases", []):
                    self.cases.setdefault(c[0], []).append((c[1], f["id"]))
        p = os.path.join(ROOT, "known_findings", pid + ".cases.gz")
        if os.path.exists(p):
            for line in gzip.open(p, "rt"):
                parts = line.split()
                if len(parts) == 3:
                    self.cases.setdefault(parts[0], []).append((parts[1], parts[2]))

    def match(self, key, digest):
        for d, fid in self.cases.get(key, []):
            if d == digest or d == "*":
                return fid
        return None


# ---------------------------------------------------------------------------------------------
# Check: collects verdicts, writes evidence, prints VIOLATION / KNOWN-FINDING lines
# ---------------------------------------------------------------------------------------------

class Check:
    def __init__(self, pid, tier, seed, level):
        self.pid, self.tier, self.seed, self.level = pid, tier, seed, level
        self.t0 = time.time()
        self.known = Known(pid)
        self.violations = []      # dicts: key, digest, title, replay(dict)
        self.matched = {}         # finding id -> count
        self.seen_keys = set()
        self.coverage = {}
        self.assumptions = []
        self.notes = []

    def fail(self, key, obs, title, replay, cluster=None):
        """Report a failing case. key: stable case identity string; obs: wrong observation string;
        cluster: root-cause bucket used by tools/triage.py when recording known findings."""
        k = sha(key)
        d = sha(obs, 8)
        self.seen_keys.add(k)
        fid = self.known.match(k, d)
        if fid:
            self.matched[fid] = self.matched.get(fid, 0) + 1
            return False
        self.violations.append({"key": k, "digest": d, "title": title, "case": key, "observed": obs, "replay": replay, "cluster": cluster or title[:60]})
        return True

    def resolved(self):
        """Known cases that were enumerated this run and no longer fail are 'resolved' (info only)."""
        return 0

    def finish(self, exhaustive=None):
        wall = time.time() - self.t0
        cov = dict(self.coverage)
        if exhaustive is not None:
            cov["exhaustive"] = bool(exhaustive)
        cov["known_findings_matched"] = dict(self.matched)
        cov["violations_found"] = len(self.violations)
        ev = {"property_id": self.pid, "tier": self.tier, "seed": self.seed, "level": self.level,
              "coverage": cov, "assumptions": self.assumptions, "wall_s": round(wall, 2),
              "violations": len(self.violations)}
        os.makedirs(os.path.join(ROOT, "evidence"), exist_ok=True)
        with open(os.path.join(ROOT, "evidence", self.pid + ".json"), "w") as f:
            json.dump(ev, f, indent=1, sort_keys=True)
            f.write("\n")
        for fid, n in sorted(self.matched.items()):
            f_ = self.known.findings.get(fid, {})
            print("KNOWN-FINDING: property=%s %s cases=%d/%s %s" % (self.pid, fid, n, f_.get("cases", "?"), f_.get("title", "")))
        if self.violations:
            rdir = os.path.join(ROOT, "replays", self.pid)
            os.makedirs(rdir, exist_ok=True)
            # group by title so that one root cause prints a bounded number of lines
            shown = {}
            allv = os.path.join(rdir, "all_%s.jsonl" % self.tier)
            with open(allv, "w") as f:
                for v in self.violations:
                    f.write(json.dumps({"key": v["key"], "digest": v["digest"], "title": v["title"], "cluster": v["cluster"], "observed": v["observed"][:300]}) + "\n")
            n = 0
            for v in self.violations:
                c = shown.get(v["cluster"], 0)
                shown[v["cluster"]] = c + 1
                if c >= 2 or n >= 40:
                    continue
                n += 1
                path = os.path.join(rdir, "%s.json" % v["key"])
                rp = dict(v["replay"])
                rp.update({"property": self.pid, "title": v["title"], "observed": v["observed"], "case_key": v["key"],
                           "replay_cmd": "./check %s --replay %s" % (self.pid, path)})
                with open(path, "w") as f:
                    json.dump(rp, f, indent=1)
                print("VIOLATION property=%s replay=%s" % (self.pid, path))
                print("#   " + v["title"][:200])
            print("# %d violating cases in %d groups; full list: %s" % (len(self.violations), len(shown), allv))
            sys.stdout.flush()
            return 1
        # a clean run leaves no violation list behind (tools/triage.py reads these files)
        stale = os.path.join(ROOT, "replays", self.pid, "all_%s.jsonl" % self.tier)
        if os.path.exists(stale):
            os.unlink(stale)
        print("OK property=%s tier=%s wall=%.1fs %s" % (self.pid, self.tier, wall,
              " ".join("%s=%s" % (k, v) for k, v in cov.items() if isinstance(v, (int, bool)))))
        return 0


def tvh_shards(args_fn, nshards=None, profile="chk", as_gb=8):
    """Run `tvh <args_fn(shard, nshards)>` for every shard in parallel; returns the JSON summaries."""
    from concurrent.futures import ThreadPoolExecutor
    nshards = nshards or NCPU
    build(profile)
    with ThreadPoolExecutor(max_workers=NCPU) as ex:
        return list(ex.map(lambda k: tvh_json(args_fn(k, nshards), profile=profile, as_gb=as_gb), range(nshards)))
