"""C02 — garbage collection is invisible. Fault = "a collection happens here".
For every program of the families, the outcome under every collection schedule (thresholds 1,2,3,5,7,100;
forced collect after every step; forced collect after step i for every single i; collect right before
allocation #i for every single i; thorough: every pair of allocation points for small programs) must equal
the outcome with collection disabled, and the stale-handle log (hook H1) must stay empty."""
import itertools, json, sys
from . import core, gen01, prog

PID = "C02"

PRE = "function A(x){ return {w:x, a:[x,{z:x}], s:'s'+x}; }\nfunction mk(){ return [{v:1},{v:2},{v:3},{v:4}]; }\nfunction J(x){ return JSON.stringify(x); }\n"

# expression templates; every object argument is freshly allocated and otherwise unreferenced
NATIVES = {
    # Array.prototype with callbacks
    "map": "J(mk().map(function(x){ return A(x.v); }))",
    "map-closure": "J(mk().map(function(x){ var o=A(x.v); return function(){ return o; }; }).map(function(f){ return f(); }))",
    "filter": "J(mk().filter(function(x){ A(x.v); return x.v%2; }))",
    "forEach": "(function(){ var o=[]; mk().forEach(function(x){ o.push(A(x.v)); }); return J(o); })()",
    "reduce-concat": "J(mk().reduce(function(a,x){ return a.concat([A(x.v)]); },[]))",
    "reduce-noinit": "J(mk().reduce(function(a,x){ return {v:a.v+x.v, h:A(x.v)}; }))",
    "reduceRight": "J(mk().reduceRight(function(a,x){ return a.concat([A(x.v)]); },[]))",
    "flatMap": "J(mk().flatMap(function(x){ return [A(x.v),[x.v]]; }))",
    "flat": "J([[A(1)],[[A(2)]],mk()].flat(2))",
    "find": "J(mk().find(function(x){ A(x.v); return x.v==3; }))",
    "findLast": "J(mk().findLast(function(x){ A(x.v); return x.v==2; }))",
    "findIndex": "J(mk().findIndex(function(x){ A(x.v); return x.v==3; }))",
    "some-every": "J([mk().some(function(x){ A(1); return x.v>3; }), mk().every(function(x){ A(1); return x.v>0; })])",
    "sort": "J(mk().sort(function(a,b){ A(a.v); return b.v-a.v; }))",
    "toSorted": "J(mk().toSorted(function(a,b){ A(a.v); return b.v-a.v; }))",
    "sort-strings": "J([A(3),A(1),A(2)].map(function(o){return o.s;}).sort())",
    "concat": "J(mk().concat(mk(),[A(9)]))",
    "slice-splice": "(function(){ var a=mk(); var r=a.splice(1,2,A(7),A(8)); return J([a,r,a.slice(1)]); })()",
    "toSpliced-with": "J([mk().toSpliced(1,1,A(5)), mk().with(0,A(6)), mk().toReversed()])",
    "fill-copyWithin": "J([new Array(3).fill(0).map(function(_,i){ return A(i); }), mk().copyWithin(0,2)])",
    "join-toString": "J([[A(1),A(2)].map(function(o){ return o.s; }).join('-'), String([[1,[2]],[A(3).s]])])",
    "includes-indexOf": "(function(){ var a=mk(); var t=a[2]; A(0); return J([a.indexOf(t),a.includes(t),a.lastIndexOf(t)]); })()",
    "Array.from-map": "J(Array.from(mk(),function(x){ return A(x.v); }))",
    "Array.from-iterable": "J(Array.from(new Set(mk().map(function(x){ return x.v; })),function(x){ return A(x); }))",
    "Array.from-generator": "J(Array.from((function*(){ for (var i=0;i<4;i++) yield A(i); })()))",
    "Array.from-arraylike": "J(Array.from({length:3,0:A(0),1:A(1),2:A(2)}))",
    "Array.of": "J(Array.of(A(1),A(2),mk()))",
    "spread-generator": "J([...(function*(){ for (var i=0;i<4;i++) yield A(i); })()])",
    "spread-call": "(function(){ function f(){ return J(Array.prototype.slice.call(arguments)); } return f(...mk().map(function(x){ return A(x.v); })); })()",
    "spread-object": "J({...A(1), ...{q:A(2)}, r:[...mk()]})",
    "destructure-generator": "(function(){ var [a,b,...c]=(function*(){ for (var i=0;i<5;i++) yield A(i); })(); return J([a,b,c]); })()",
    "destructure-object": "(function(){ var {w,a:[p,{z}],...rest}=A(4); return J([w,p,z,rest]); })()",
    "for-of-generator": "(function(){ var o=[]; for (var x of (function*(){ for (var i=0;i<4;i++) yield A(i); })()) { o.push(x, A(9)); } return J(o); })()",
    "for-in": "(function(){ var o=[]; for (var k in A(3)) { o.push(k, A(1).s); } return J(o); })()",
    "yield-star": "J([...(function*(){ yield* (function*(){ yield A(1); yield A(2); })(); yield* [A(3)]; })()])",
    "generator-return-value": "(function(){ function* g(){ var x=yield A(1); return {got:x, n:A(2)}; } var it=g(); var a=it.next(); var b=it.next(A(5)); return J([a,b]); })()",
    # Object.*
    "Object.keys-values-entries": "J([Object.keys(A(1)),Object.values(A(2)),Object.entries(A(3))])",
    "Object.assign": "J(Object.assign({},A(1),{k:A(2)},{a:mk()}))",
    "Object.fromEntries": "J(Object.fromEntries(mk().map(function(x){ return ['k'+x.v,A(x.v)]; })))",
    "Object.groupBy": "J(typeof Object.groupBy==='function' ? Object.groupBy(mk(),function(x){ A(1); return x.v%2?'odd':'even'; }) : 'n/a')",
    "Object.create-defineProperties": "(function(){ var o=Object.create({inh:A(1)},{own:{value:A(2),enumerable:true}}); return J([o.own,o.inh,Object.getOwnPropertyDescriptor(o,'own').value]); })()",
    "Object.freeze-nested": "J(Object.freeze({a:Object.freeze(A(1)),b:mk()}))",
    "getter-allocates": "(function(){ var o={get g(){ return A(7); }, get h(){ return mk(); }}; return J([o.g,o.h,o.g.a]); })()",
    "setter-allocates": "(function(){ var o={set s(v){ this._s=[A(v),v]; }}; o.s=3; o.s=A(4); return J(o._s); })()",
    "toJSON": "J({a:{toJSON:function(){ return A(1); }},b:[{toJSON:function(){ return mk(); }}]})",
    "valueOf-toString": "(function(){ var o={valueOf:function(){ A(1); return 3; }, toString:function(){ return A(2).s; }}; return J([o+1,`${o}`,[o]+'',o*2]); })()",
    # JSON
    "JSON.stringify-replacer": "JSON.stringify({a:1,b:[1,2,{c:3}]},function(k,v){ return typeof v==='number' ? A(v) : v; })",
    "JSON.parse-reviver": "J(JSON.parse('{\"a\":1,\"b\":[1,2,{\"c\":3}]}',function(k,v){ return typeof v==='number' ? A(v) : v; }))",
    "JSON.parse-big": "J(JSON.parse(J(mk().map(function(x){ return A(x.v); }))))",
    "JSON.stringify-indent": "JSON.stringify(mk().map(function(x){ return A(x.v); }),null,2)",
    # Map / Set
    "Map-ctor-iter": "(function(){ var m=new Map(mk().map(function(x){ return [A(x.v),A(-x.v)]; })); return J([...m.entries()]); })()",
    "Map-forEach": "(function(){ var m=new Map([[1,A(1)],[2,A(2)]]); var o=[]; m.forEach(function(v,k){ o.push(k,v,A(k)); }); return J(o); })()",
    "Map-object-keys": "(function(){ var k1=A(1),k2=A(2); var m=new Map([[k1,'a'],[k2,'b']]); A(3); return J([m.get(k1),m.get(k2),m.has(A(1)),m.size]); })()",
    "Set-ctor-iter": "(function(){ var s=new Set((function*(){ for (var i=0;i<4;i++) yield A(i%2).s; })()); return J([...s]); })()",
    "Set-forEach": "(function(){ var s=new Set(mk()); var o=[]; s.forEach(function(v){ o.push(v,A(v.v)); }); return J(o); })()",
    "Map.groupBy": "J(typeof Map.groupBy==='function' ? [...Map.groupBy(mk(),function(x){ A(1); return x.v%2; }).entries()] : 'n/a')",
    "WeakMap": "(function(){ var k=A(1); var w=new WeakMap([[k,A(2)]]); A(3); return J([w.get(k),w.has(k)]); })()",
    # String
    "replace-callback": "'a1b2c3'.replace(/\\d/g,function(d){ return A(d).s; })",
    "replaceAll-callback": "'a-b-c'.replaceAll('-',function(m,i){ return J(A(i)); })",
    "split-map": "J('a,b,c'.split(',').map(function(x){ return A(x); }))",
    "match-matchAll": "J(['a1b22'.match(/\\d+/g), [...'a1b22'.matchAll(/\\d+/g)].map(function(m){ return [m[0],m.index,A(1).s]; })])",
    "template-alloc": "(function(){ var o={toString:function(){ return A(1).s; }}; return `${A(2).s}-${o}-${[A(3).s,mk().length]}`; })()",
    "tagged-template": "(function(){ function t(s,...v){ return J([s.raw,v,A(1)]); } return t`a${A(2)}b${mk()}c`; })()",
    "string-methods": "J(['abc'.padStart(6,A(1).s),'abc'.concat(A(2).s,A(3).s),'x'.repeat(3)+A(4).s,'a-b'.split('-').concat(A(5).s)])",
    # functions / classes / closures
    "call-apply-bind": "(function(){ function f(a,b){ return [this,a,b,A(0)]; } var b=f.bind(A(1),A(2)); return J([f.call(A(3),A(4),A(5)),f.apply(A(6),[A(7),A(8)]),b(A(9))]); })()",
    "class-ctor-fields": "(function(){ class C { f=A(1); static s=A(2); constructor(x){ this.x=A(x); } m(){ return [this.f,this.x,A(3)]; } } return J([new C(4).m(),C.s,new C(5).x]); })()",
    "class-extends": "(function(){ class B { constructor(x){ this.b=A(x); } } class D extends B { d=A(2); constructor(){ super(A(1)); this.e=mk(); } } return J(new D()); })()",
    "class-accessors": "(function(){ class C { #p=A(1); get p(){ return [this.#p,A(2)]; } static make(){ return new C(); } } return J(C.make().p); })()",
    "closure-counter": "(function(){ function mkc(){ var st=A(0); return function(){ st={prev:st.w,w:A(st.w)}; return st; }; } var c=mkc(); c(); c(); return J(c()); })()",
    "recursion-alloc": "(function(){ function t(n){ return n==0 ? A(0) : {l:t(n-1),r:A(n)}; } return J(t(4)); })()",
    "arguments-object": "(function(){ function f(){ A(1); return J([arguments.length,arguments[0],Array.from(arguments)]); } return f(A(2),mk(),A(3)); })()",
    "default-params-alloc": "(function(){ function f(a=A(1),b=[a,A(2)],...r){ return J([a,b,r]); } return f(undefined,undefined,A(3),A(4)); })()",
    "try-catch-finally": "(function(){ var o=[]; try { try { throw A(1); } finally { o.push(A(2)); } } catch (e) { o.push(e,A(3)); } return J(o); })()",
    "throw-error-object": "(function(){ try { null.x; } catch (e) { var m=A(1); return J([e instanceof TypeError, typeof e.message, m]); } })()",
    "error-cause": "(function(){ var e=new Error('m',{cause:A(1)}); var e2=new RangeError(A(2).s); return J([e.cause,e2.message,String(e2),A(3)]); })()",
    "symbol-keys": "(function(){ var s=Symbol('k'); var o={[s]:A(1),n:A(2)}; A(3); return J([o[s],Object.getOwnPropertySymbols(o).length,o.n]); })()",
    "proxy-get-set": "(function(){ var log=[]; var p=new Proxy(A(1),{get:function(t,k,r){ log.push(A(0).s); return k in t ? t[k] : A(9); }, set:function(t,k,v){ t[k]=[v,A(8)]; return true; }}); p.q=A(5); return J([p.w,p.zz,p.q,log.length]); })()",
    "proxy-traps": "(function(){ var p=new Proxy({a:1},{has:function(t,k){ A(1); return true; }, ownKeys:function(t){ return ['a','b'].concat(A(2).s); }, getOwnPropertyDescriptor:function(t,k){ return {value:A(3),enumerable:true,configurable:true}; }, deleteProperty:function(t,k){ A(4); return true; }}); return J(['x' in p,Object.keys(p),delete p.a]); })()",
    "Reflect": "J([Reflect.ownKeys(A(1)),Reflect.construct(function(x){ this.x=A(x); },[3]),Reflect.apply(function(a){ return [this,a,A(1)]; },A(2),[A(3)])])",
    "Date-alloc": "J([new Date(86400000).toISOString(), [new Date(0), A(1)].map(function(d){ return d instanceof Date ? d.getTime() : d; })])",
    "regexp-exec-groups": "(function(){ var r=/(?<y>\\d{4})-(?<m>\\d\\d)/g; var o=[]; var m; while ((m=r.exec('2020-01 2021-02'))) { o.push(m.groups.y,A(m.index)); } return J(o); })()",
    "optional-chaining-alloc": "J([A(1)?.a?.[1]?.z, mk()?.[2]?.v, A(2).nope?.x, A(3).a.map?.(function(x){ return A(0).s; })])",
    "label-loops-alloc": "(function(){ var o=[]; outer: for (var i=0;i<3;i++) { for (var j=0;j<3;j++) { if (j==2) continue outer; if (i==2) break outer; o.push(A(i*10+j)); } } return J(o); })()",
    "switch-alloc": "(function(){ function f(x){ switch (x.w) { case 1: return A(10); case 2: { let q=A(20); return [q,A(21)]; } default: return mk(); } } return J([f(A(1)),f(A(2)),f(A(3))]); })()",
    "object-literal-methods": "(function(){ var o={m(){ return A(1); }, get g(){ return this.m(); }, ['c'+'k']:A(2), [Symbol.iterator]:function*(){ yield A(3); yield this.ck; }}; return J([o.g,[...o]]); })()",
    "nested-closures-loop": "(function(){ var fs=[]; for (let i=0;i<4;i++) { let o=A(i); fs.push(function(){ return [o,i,A(-i)]; }); } return J(fs.map(function(f){ return f(); })); })()",
    "string-keys-many": "(function(){ var o={}; for (var i=0;i<12;i++) { o['k'+i]=A(i); } var s=0; for (var k in o) s+=o[k].a[1].z; return J([s,Object.keys(o).length,o.k7]); })()",
    "array-growth": "(function(){ var a=[]; for (var i=0;i<30;i++) { a.push(A(i)); if (i%7==0) a.shift(); } return J([a.length,a[0],a[a.length-1]]); })()",
    "delete-readd": "(function(){ var o=A(1); delete o.a; o.a=mk(); delete o.w; o.n={deep:A(2)}; return J(o); })()",
    "instanceof-hasInstance": "(function(){ function C(){ this.c=A(1); } var c=new C(); A(2); return J([c instanceof C, C.prototype.isPrototypeOf(c), Object.getPrototypeOf(c)===C.prototype, c]); })()",
}


# fresh objects handed from one script callback to the next by a native (the value lives only in the native's
# locals between the two calls), and natives that read their sources through getters / iterators / ToPrimitive
PAIRS = {
    "stringify-toJSON-then-replacer": "JSON.stringify({id:7,total:{toJSON:function(){ return A(1); }},items:[{toJSON:function(){ return A(2); }},{toJSON:function(){ return mk(); }}]},function(k,v){ var t=A(0); return v; })",
    "stringify-toJSON-replacer-wraps": "JSON.stringify([{toJSON:function(){ return A(1); }},{toJSON:function(){ return A(2); }}],function(k,v){ return (v&&v.w&&(k==='0'||k==='1')) ? {wrapped:v.s,extra:A(9).s} : v; })",
    "stringify-getter-then-toJSON": "JSON.stringify({get a(){ return {toJSON:function(){ return A(1); }}; }, get b(){ return A(2); }},function(k,v){ A(0); return v; })",
    "stringify-allowlist-getters": "JSON.stringify({get w(){ return A(1); }, get s(){ return A(2).s; }, x:3},['w','s','a'])",
    "stringify-nested-toJSON-indent": "JSON.stringify({a:{toJSON:function(){ return {b:{toJSON:function(){ return A(1); }},c:[A(2)]}; }}},null,1)",
    "parse-reviver-fresh-nested": "J(JSON.parse('{\"a\":[1,[2,{\"b\":3}]],\"c\":{\"d\":4}}',function(k,v){ return typeof v==='number' ? A(v) : (Array.isArray(v) ? v.concat([A(0)]) : v); }))",
    "parse-reviver-deletes": "J(JSON.parse('{\"a\":1,\"b\":{\"c\":2,\"d\":3},\"e\":[4,5]}',function(k,v){ A(0); return k==='c'||k==='a' ? undefined : v; }))",
    "assign-getter-to-setter": "(function(){ var t={set a(v){ this._a=[v,A(8)]; }, set b(v){ this._b=[v,A(9)]; }}; Object.assign(t,{get a(){ return A(1); }, get b(){ return mk(); }}); return J([t._a,t._b]); })()",
    "entries-values-getters": "J([Object.entries({get a(){ return A(1); }, get b(){ return A(2); }}),Object.values({get a(){ return A(3); }, b:A(4), get c(){ return mk(); }})])",
    "spread-getters": "J({...{get a(){ return A(1); }, get b(){ return A(2); }, c:A(3)}, ...{get d(){ return mk(); }}})",
    "rest-getters": "(function(){ var {a,...r}={get a(){ return A(1); }, get b(){ return A(2); }, get c(){ return mk(); }}; return J([a,r]); })()",
    "Array.from-generator-mapfn": "J(Array.from((function*(){ for (var i=0;i<4;i++) yield A(i); })(),function(x,i){ return [x,A(-i)]; }))",
    "Array.from-arraylike-getters": "J(Array.from({length:3,get 0(){ return A(0); },get 1(){ return A(1); },get 2(){ return mk(); }},function(x){ A(9); return x; }))",
    "Map-ctor-generator-pairs": "(function(){ var m=new Map((function*(){ for (var i=0;i<4;i++) yield [A(i),A(-i)]; })()); return J([...m]); })()",
    "Set-ctor-generator-fresh": "(function(){ var s=new Set((function*(){ for (var i=0;i<4;i++) yield A(i); })()); return J([...s]); })()",
    "Map-ctor-custom-iterator": "(function(){ var n=0; var it={[Symbol.iterator]:function(){ return {next:function(){ n++; return n>3 ? {done:true} : {done:false,value:[A(n),mk()]}; }}; }}; return J([...new Map(it)]); })()",
    "sort-comparator-fresh-elements": "J(mk().map(function(x){ return A(x.v); }).sort(function(a,b){ var t=A(0); return b.w-a.w; }))",
    "sort-merge-large": "(function(){ var a=[]; for (var i=0;i<9;i++) a.push(A((i*5)%9)); return J(a.sort(function(x,y){ A(0); return x.w-y.w; }).map(function(o){ return o.w; })); })()",
    "toPrimitive-symbol": "(function(){ var o={[Symbol.toPrimitive]:function(h){ var t=A(1); return h==='number' ? t.w : t.s; }}; return J([+o,`${o}`,o+'',[o,o].join('-'),o*2]); })()",
    "join-toString-allocating": "J([[{toString:function(){ return A(1).s; }},[{toString:function(){ return A(2).s; }}]],[A(3).s]].join('|'))",
    "replaceAll-fn-fresh": "'a-b-c-d'.replaceAll('-',function(m,i,str){ return A(i).s + mk().length; })",
    "replace-named-groups": "J('2020-01 2021-02'.replace(/(?<y>\\d{4})-(?<m>\\d\\d)/g,function(){ var g=arguments[arguments.length-1]; return J([g.y,A(1).w]); }))",
    "matchAll-groups": "J([...'a1b22'.matchAll(/(?<d>\\d+)/g)].map(function(m){ return [m.groups.d,A(1).s,m.index]; }))",
    "generator-return-through-yielding-finally": "(function(){ function* g(){ try { yield A(1); } finally { yield A(2); A(3); } } var it=g(); var a=it.next(); var b=it.return(A(5)); var c=it.next(); return J([a,b,c]); })()",
    "generator-throw-into-yield-star": "(function(){ function* inner(){ try { yield A(1); } catch (e) { yield [e,A(2)]; } finally { A(3); } } function* outer(){ var r=yield* inner(); yield A(4); } var it=outer(); var a=it.next(); var b=it.throw(A(5)); var c=it.next(); return J([a,b,c]); })()",
    "generator-block-scopes-across-yield": "(function(){ function* g(){ let o=A(0); { let o2=A(1); yield o2; { let o3=A(2); yield [o2,o3]; } } yield o; } return J([...g()]); })()",
    "yield-star-iterator-error": "(function(){ var bad={[Symbol.iterator]:function(){ return {next:function(){ throw A(7); }}; }}; function* g(){ try { yield* bad; } catch (e) { yield [e,A(1)]; } } return J([...g()]); })()",
    "array-rest-from-iterator": "(function(){ var [a,...r]=new Set([A(1),A(2),A(3)]); var [b,...q]=(function*(){ yield A(4); yield A(5); })(); return J([a,r,b,q]); })()",
    "object-rest-computed": "(function(){ var k='w'; var {[k]:x,...r}=A(1); return J([x,r,A(2)]); })()",
    "defineProperty-existing": "(function(){ var o=A(1); Object.defineProperty(o,'a',{value:mk()}); Object.defineProperty(o,'n',{get:function(){ return A(2); },enumerable:true}); return J([o,Object.getOwnPropertyDescriptors(o).a.value,Object.getOwnPropertyNames([A(3)])]); })()",
    "sealed-array-ops": "(function(){ var a=Object.seal([A(1),A(2),A(3)]); var r=[]; try { a.shift(); } catch (e) { r.push(e.name,A(4)); } try { a.splice(1,1); } catch (e) { r.push(e.name); } return J([a,r]); })()",
    "class-private-in-and-newtarget": "(function(){ class B { #m(){ return A(1); } static has(o){ return #m in o; } constructor(){ this.t=new.target.name; this.v=this.#m(); } } class D extends B { d=A(2); } return J([new D(),B.has(new D()),B.has(A(3))]); })()",
    "class-symbol-iterator-method": "(function(){ class K { *[Symbol.iterator](){ yield A(1); yield A(2); } } return J([...new K(),Array.from(new K())]); })()",
    "structuredClone-alloc": "J(typeof structuredClone==='function' ? structuredClone({a:A(1),m:new Map([[1,A(2)]]),s:new Set([A(3).s]),d:[mk()]}).a : 'n/a')",
    # values the engine caches in a suspended or running construct while the program drops the last heap reference
    "yield-star-next-removed-mid-delegation": "(function(){ var it={i:0,[Symbol.iterator]:function(){ return this; },next:function(){ this.i++; var t=A(this.i); return {done:this.i>3,value:t.w}; }}; function* g(){ yield* it; return 'end'; } var o=g(); var out=[o.next().value]; delete it.next; A(0); var s; while(!(s=o.next()).done) out.push(s.value); out.push(s.value); return J(out); })()",
    "yield-star-next-replaced-mid-delegation": "(function(){ var n=0; var it={[Symbol.iterator]:function(){ return this; },next:function(){ n++; A(n); return {done:n>3,value:n}; }}; function* g(){ var r=yield* it; yield 'r'+r; } var o=g(); var out=[o.next().value]; it.next=function(){ return {done:true,value:'swapped'}; }; A(0); out.push(o.next().value,o.next().value); return J(out); })()",
    "for-of-iterator-method-removed": "(function(){ var holder={[Symbol.iterator]:function(){ var i=0; return {next:function(){ i++; A(i); return {done:i>3,value:i}; }}; }}; var out=[]; for (var v of holder) { if (v==1) { delete holder[Symbol.iterator]; A(0); } out.push(v); } return J(out); })()",
    "getter-deletes-itself": "(function(){ var o={get g(){ delete o.g; var t=A(1); A(2); return t; }}; var r=o.g; return J([r,Object.keys(o)]); })()",
    "callback-detached-while-running": "(function(){ var h={cb:function(x){ h.cb=null; var t=A(x); A(0); return t; }}; var r=[1,2].map(function(x){ return h.cb ? h.cb(x) : A(-x); }); return J(r); })()",
    "bound-target-dropped": "(function(){ var o={f:function(a){ return [this.k,A(a)]; },k:A(7)}; var b=o.f.bind(o,3); o.f=null; o=null; A(0); return J(b()); })()",
    "generator-owner-dropped": "(function(){ var holder={mk:function*(){ var t=A(1); yield t; yield A(2); }}; var it=holder.mk(); holder.mk=null; holder=null; var a=it.next().value; A(0); var b=it.next().value; return J([a,b]); })()",
    "closure-only-in-promise-reaction": "(async function(){})(), (function(){ var out=[]; (function(){ var big=A(5); Promise.resolve(1).then(function(){ out.push(big); }); })(); A(0); return J(out); })()",
    "update-and-compound-on-getter": "(function(){ var o={_v:A(1),get v(){ return this._v.w; }, set v(x){ this._v=A(x); }}; o.v++; o.v+=2; return J(o._v); })()",
}

# programs whose interesting state is held by the promise machinery (several reactions on one promise, combinators)
ASYNC = {
    "then-three-handlers-one-promise": "var res; var p=new Promise(function(r){ res=r; }); var o=[]; p.then(function(v){ o.push(A(1)); }); p.then(function(v){ o.push(A(2),v); }); p.then(function(v){ o.push(v.a); }); res(A(3)); await p; await null; return o;",
    "then-handlers-after-await": "var res; var p=new Promise(function(r){ res=r; }); var o=[]; p.then(function(v){ o.push(A(1)); return A(4); }).then(function(v){ o.push(v); }); p.then(function(v){ o.push(A(2)); }); await null; res(A(3)); await p; await null; await null; return o;",
    "catch-finally-chain": "var o=[]; await Promise.reject(A(1)).catch(function(e){ o.push(e,A(2)); return A(3); }).finally(function(){ o.push(A(4)); }).then(function(v){ o.push(v); }); return o;",
    "all-allSettled-fresh": "var r=await Promise.all([Promise.resolve(A(1)),A(2),new Promise(function(res){ res(A(3)); })]); var s=await Promise.allSettled([Promise.reject(A(4)),Promise.resolve(A(5))]); return [r,s];",
    "race-any-fresh": "var r=await Promise.race([new Promise(function(){}),Promise.resolve(A(1))]); var a=await Promise.any([Promise.reject(A(2)),Promise.resolve(A(3))]); return [r,a];",
    "async-generator-for-await": "async function* g(){ for (var i=0;i<3;i++) { yield A(i); await null; } } var o=[]; for await (var x of g()) { o.push(x,A(9)); } return o;",
    "async-callee-in-finally": "async function inner(){ var t=A(1); await null; return t; } async function outer(){ try { return A(2); } finally { var k=await inner(); A(3); } } return [await outer()];",
    "thenable-adoption": "var th={then:function(res){ res(A(1)); }}; var v=await th; var w=await Promise.resolve(th); return [v,w,A(2)];",
    "await-in-loop-closures": "var fs=[]; for (let i=0;i<3;i++) { let o=A(i); await null; fs.push(function(){ return [o,A(-i)]; }); } return fs.map(function(f){ return f(); });",
}

# ------------------------------------------------------------------ state held across a suspension
# holder positions (where a fresh, otherwise unreferenced object lives while the VM is suspended) x suspension kinds.
# @S@ = suspending statement, @SV@ = suspending expression, @ASYNC@/@AWAIT@ = "async "/"await " for the await kinds.
SUSP_PRE = "import { order } from \"tsrun:host\";\n" + PRE + "function sus(){ return order('x'); }\nfunction sus2(){ var t = A(7); var r = sus(); return [t.w, r].join(); }\nasync function asus(){ return await order('x'); }\nasync function asus2(){ const t = A(7); const r = await asus(); return [t.w, r].join(); }\n"
SUSP_KINDS = {
    "order-same-frame": ("order('x');", "order('x')", False),
    "order-in-callee": ("sus();", "sus()", False),
    "order-two-frames-down": ("sus2();", "sus2()", False),
    "await-order": ("await order('x');", "(await order('x'))", True),
    "await-async-callee": ("await asus();", "(await asus())", True),
    "await-two-frames-down": ("await asus2();", "(await asus2())", True),
}
HOLDERS = {
    "local": "const o = A(1); @S@ return o;",
    "pending-return-in-finally": "let t = 0; try { return A(1); } finally { t = t + 1; @S@ }",
    "pending-throw-in-finally": "@ASYNC@function inner(){ let t = 0; try { throw A(1); } finally { t = t + 1; @S@ } } try { @AWAIT@inner(); } catch (e) { return e; }",
    "pending-return-finally-nested": "let t = 0; try { try { return A(1); } finally { t = t + 1; @S@ } } finally { t = t + 2; @S@ }",
    "caught-exception": "try { throw A(1); } catch (e) { @S@ return e; }",
    "arguments": "@ASYNC@function g(x, y){ @S@ return [x, y]; } return @AWAIT@g(A(1), A(2));",
    "this-object": "const obj = { o: A(1), @ASYNC@m(){ @S@ return this.o; } }; return @AWAIT@obj.m();",
    "closure-env": "const mk2 = () => { const o = A(1); return @ASYNC@() => { @S@ return o; }; }; return @AWAIT@mk2()();",
    "array-literal-partial": "return [A(1), @SV@, A(2)];",
    "object-literal-partial": "return { a: A(1), b: @SV@, c: A(2) };",
    "call-arguments-partial": "function f3(a, b, c){ return [a, b, c]; } return f3(A(1), @SV@, A(2));",
    "template-partial": "return `${J(A(1))}|${@SV@}|${J(A(2))}`;",
    "binary-partial": "return J(A(1)) + @SV@ + J(A(2));",
    "for-of-iterator": "const out = []; for (const x of [A(1), A(2)]) { @S@ out.push(x); } return out;",
    "let-per-iteration": "const out = []; for (let i = 0; i < 2; i++) { let o = A(i); @S@ out.push(o); } return out;",
    "generator-state": "function* g(){ const o = A(1); yield A(2); yield o; } const it = g(); const a = it.next().value; @S@ const b = it.next().value; return [a, b];",
    "map-set-entries": "const m = new Map([[1, A(1)]]); const st = new Set([A(2)]); @S@ return [[...m.values()], [...st]];",
    "class-field": "class C { f = A(1); @ASYNC@m(){ @S@ return this.f; } } return @AWAIT@new C().m();",
    "spread-partial": "const src = { a: A(1) }; const dst = { ...src, b: @SV@ }; return dst;",
    "destructuring-default": "const [p, q = A(2)] = [A(1)]; @S@ return [p, q];",
    "caller-frames": "@ASYNC@function lvl2(v){ const keep = A(3); @S@ return [v, keep]; } @ASYNC@function lvl1(){ const mine = A(1); const r = @AWAIT@lvl2(A(2)); return [mine, r]; } return @AWAIT@lvl1();",
    "switch-block-let": "switch (1) { case 1: { let o = A(1); @S@ return o; } }",
    "labelled-loop-temp": "let keep; outer: for (let i = 0; i < 2; i++) { for (let j = 0; j < 2; j++) { const o = A(i * 2 + j); @S@ if (j == 1) { keep = o; continue outer; } } } return keep;",
    "resolved-promise-value": "const p = Promise.resolve(A(1)); @S@ return @AWAIT@p;",
    "pending-completion-and-temp": "let t = 0; try { return [A(1), A(2)]; } finally { t = t + 1; const tmp = A(3); @S@ t = t + tmp.w; }",
}


def susp_programs():
    out = []
    for hn, body in HOLDERS.items():
        for kn, (st, sv, is_async) in SUSP_KINDS.items():
            if hn == "resolved-promise-value" and not is_async:
                continue
            b = body.replace("@S@", st).replace("@SV@", sv).replace("@ASYNC@", "async " if is_async else "").replace("@AWAIT@", "await " if is_async else "")
            src = SUSP_PRE + ("async function H(){ %s }\nJ(await H())" if is_async else "function H(){ %s }\nJ(H())") % b
            out.append({"id": "suspend|%s|%s" % (hn, kn), "src": src})
    return out


def programs(tier):
    out = susp_programs()
    for name, expr in NATIVES.items():
        out.append({"id": "native|" + name, "src": PRE + expr})
        # the same expression executed inside a callee and inside a loop (different live temporaries)
        out.append({"id": "native-in-loop|" + name, "src": PRE + "var acc=[]; for (var q=0;q<2;q++) { var t=[q,A(q)]; acc.push(" + expr + ", t); } J(acc)"})
    for name, expr in PAIRS.items():
        out.append({"id": "pair|" + name, "src": PRE + expr})
        if tier != "quick":
            out.append({"id": "pair-in-loop|" + name, "src": PRE + "var acc=[]; for (var q=0;q<2;q++) { var t=[q,A(q)]; acc.push(" + expr + ", t); } J(acc)"})
    for name, body in ASYNC.items():
        out.append({"id": "async|" + name, "src": PRE + "async function H(){ %s }\nJ(await H())" % body})
    fams = ["class", "pattern", "gen", "scope", "flow2"]
    for f in fams:
        cs = [c for c in gen01.FAMILIES[f]() if c.quick]
        stride = max(1, len(cs) // (25 if tier == "quick" else 150))
        for c in cs[::stride]:
            out.append({"id": "c01|" + c.id, "src": c.src, "max_points": 150 if tier == "quick" else 600})
    if tier != "quick":
        for o in out:
            if o["id"].startswith("native|") or o["id"].startswith("pair|") or o["id"].startswith("async|"):
                o["pairs"] = True
    return out


def run(tier, seed):
    chk = core.Check(PID, tier, seed, "fault_enumeration")
    cases = programs(tier)
    for c in cases:
        c["budget"] = 400000
    res = core.run_batch(cases, sub_args=("gcsched",), hang_s=300, as_gb=2)
    runs = 0
    progs_alloc = 0
    fam = {}
    for c in cases:
        o = res[c["id"]]
        kind = c["id"].split("|")[0]
        f = fam.setdefault(kind, {"programs": 0, "runs": 0, "programs_with_diffs": 0})
        f["programs"] += 1
        if o.get("status") != "ok":
            chk.fail("proc|" + c["src"], str(o.get("status")), "%s: worker %s while exploring collection schedules" % (c["id"], o.get("status")), {"src": c["src"], "id": c["id"]}, cluster="%s: process-level failure" % c["id"].split("|")[1][:40])
            f["programs_with_diffs"] += 1
            continue
        runs += o["runs"]
        f["runs"] += o["runs"]
        if o["allocs"] > 0:
            progs_alloc += 1
        if o["ndiff"]:
            f["programs_with_diffs"] += 1
            d0 = o["diffs"][0]
            # the wrong observation recorded for the finding: the set of failing schedule kinds (stable) rather than one schedule
            kinds = sorted(set(d["schedule"].split("=")[0] for d in o["diffs"]))
            chk.fail("gc|" + c["src"], "diff under " + ",".join(kinds), "%s: outcome depends on the collection schedule (%d of %d schedules differ; e.g. %s -> %s, stale-handle dereferences %s; baseline %s)" % (
                c["id"], o["ndiff"], o["runs"], d0["schedule"], d0["obs"][:80], d0.get("stale"), o["base"][:60]),
                {"src": c["src"], "id": c["id"], "schedule": d0["schedule"]}, cluster="collection-dependent: " + c["id"].split("|")[1][:60])
    chk.coverage = {"evaluations": runs, "distinct_nontrivial": progs_alloc, "programs": len(cases), "families": fam,
                    "samples": [{"id": cases[4]["id"], "src": cases[4]["src"][len(PRE):][:200], "schedules": "threshold in {1,2,3,5,7,100}; collect after every step; collect after step i (each i); collect before allocation #i (each i)"}],
                    "rule": "for each program: baseline with collection disabled, then every schedule of the families threshold in {1,2,3,5,7,100}, collect-after-every-step, collect-after-step-i for every i, collect-before-allocation-i for every i (capped at max_points evenly spaced points for the long C01 programs; thorough: also every pair of allocation points for programs with <= 40 allocations); oracle: identical outcome and empty stale-handle log; evaluations = executions; distinct_nontrivial = programs that allocate at least once"}
    chk.assumptions = ["programs are deterministic (fixed time/random providers)", "the stale-handle log (hook H1) reports dereferences through handles whose slot was swept or reused"]
    return chk.finish(exhaustive=True)


def replay(path):
    rp = json.load(open(path))
    o = core.run_batch([{"id": "r", "src": rp["src"], "budget": 400000}], sub_args=("gcsched",), hang_s=300, as_gb=2)["r"]
    print(json.dumps({k: o[k] for k in ("base", "runs", "ndiff", "diffs", "stale") if k in o})[:1500])
    if o.get("status") != "ok" or o.get("ndiff"):
        print("VIOLATION property=C02 replay=%s" % path)
        return 1
    return 0
