"""C08 — the order protocol is exact: every order reported once, no lost wake-ups.
Two-party protocol explored as a state space (harness/src/orders.rs): program side = combinator programs
with up to 3 (quick) / 6 (thorough) orders; host side = at every Suspended state every enabled action.
Invariants checked in every state against a ledger model: I1 each order reported exactly once with a fresh
increasing id and intact payload; I2 each cancellation names a reported order, once; I3 Suspended implies an
unanswered order or unsettled host promise; I4 progress within the step budget; I5 Complete implies nothing
unanswered; faulty host actions (unknown / duplicate ids, spurious steps) leave the state unchanged; final
outcomes depend only on the answers, not on the schedule (except race/any), and equal the synchronous twin."""
import json, sys
from . import core, c07

PID = "C08"

PROGRAMS = {
    # name: (src, options)
    "seq-2": ("const a = await order('a'); const b = await order('b'); console.log(a + b); a + b", {}),
    "seq-3": ("const a = await order('a'); const b = await order('b'); const c = await order('c'); [a, b, c].join()", {}),
    "try-each": ("let r = []; for (const k of ['a', 'b']) { try { r.push(await order(k)); } catch (e) { r.push('C:' + e); } } r.join()", {}),
    "try-around-both": ("let r; try { const a = await order('a'); const b = await order('b'); r = a + b; } catch (e) { r = 'C:' + e; } console.log(r); r", {}),
    "all-2": ("const r = await Promise.all([order('a'), order('b')]); console.log(r.join()); r.join()", {"complete_requires_settled": True}),
    "all-3": ("const r = await Promise.all([order('a'), order('b'), order('c')]); r.join()", {"complete_requires_settled": True}),
    "all-caught": ("let r; try { r = (await Promise.all([order('a'), order('b')])).join(); } catch (e) { r = 'C:' + e; } r", {}),
    "allsettled-2": ("const r = await Promise.allSettled([order('a'), order('b')]); r.map(x => x.status + ':' + (x.value || x.reason)).join()", {"complete_requires_settled": True}),
    "race-2": ("const r = await Promise.race([order('a'), order('b')]); console.log(r); r", {"order_dependent": True, "allowed_final": ["C(s:v:s:a)", "C(s:v:s:b)", "E"]}),
    "any-2": ("const r = await Promise.any([order('a'), order('b')]); console.log(r); r", {"order_dependent": True, "allowed_final": ["C(s:v:s:a)", "C(s:v:s:b)", "E"]}),
    "race-caught": ("let r; try { r = await Promise.race([order('a'), order('b')]); } catch (e) { r = 'C:' + e; } r", {"order_dependent": True}),
    "nested-fns": ("async function g(k){ return await order(k); } async function f(){ try { return await g('a'); } finally { console.log('fin'); } } const x = await f(); const y = await g('b'); x + y", {}),
    "parallel-fns": ("async function g(k){ const v = await order(k); return v + '!'; } const [x, y] = await Promise.all([g('a'), g('b')]); x + y", {"complete_requires_settled": True}),
    "fire-and-forget": ("const p = order('a'); const b = await order('b'); const a = await p; a + b", {}),
    "forget-entirely": ("order('a'); 'done'", {}),
    "then-chain": ("const r = await Promise.resolve(order('a')).then(v => v + '!').then(async v => v + (await order('b'))); r", {}),
    "order-in-finally": ("let r = ''; try { r += await order('a'); } finally { r += await order('b'); } r", {}),
    "order-in-catch": ("let r = ''; try { r += await order('a'); throw 'X'; } catch (e) { r += '|' + (typeof e) + (await order('b')); } r", {}),
    "loop-3": ("let r = ''; for (const k of ['a', 'b', 'c']) { r += await order(k); } r", {}),
    "same-payload-twice": ("const x = await order('a'); const y = await order('a'); x + y", {}),
    "object-payload": ("const r = await order({kind: 'read', path: ['x', 1]}); typeof r", {"payloads": ['o:{"kind":"read","path":["x",1]}'] * 3, "twin": False}),
    "conditional-order": ("const a = await order('a'); let r = a; if (a === 'v:s:a') { r += await order('b'); } r", {}),
    "markers-loop-3": ("const m = []; for (const k of ['a', 'b', 'c']) { m.push(order(k)); } const x = await m[0]; const y = await m[1]; const z = await m[2]; x + y + z", {}),
    "markers-reverse": ("const m = [order('a'), order('b'), order('c')]; const z = await m[2]; const y = await m[1]; const x = await m[0]; x + y + z", {}),
    "markers-then-all": ("const m = [order('a'), order('b')]; const first = await m[0]; const rest = await Promise.all(m); first + rest.join()", {}),
    "markers-held-over-another-await": ("const pa = order('a'); const pb = order('b'); const z = await Promise.resolve('z'); const c = await order('c'); const b = await pb; const a = await pa; a + b + c + z", {}),
    "markers-in-callee": ("function issue(){ return [order('a'), order('b')]; } async function take(m, i){ return await m[i]; } const m = issue(); const y = await take(m, 1); const x = await take(m, 0); x + y", {}),
    "markers-from-callback-3": ("const m = ['a', 'b', 'c'].map(order); const x = await m[0]; const y = await m[1]; const z = await m[2]; x + y + z", {}),
    "markers-from-callback-reverse": ("const m = ['a', 'b', 'c'].map(order); const z = await m[2]; const y = await m[1]; const x = await m[0]; x + y + z", {}),
    "markers-from-callback-then-all": ("const m = Array.from(['a', 'b'], order); const first = await m[0]; const rest = await Promise.all(m); first + rest.join()", {}),
    # a combinator settles, the program goes on waiting for something else: what the host is told about the losers
    # (cancellations, exactly once) arrives with a later Suspended result
    "race-then-order": ("const r = await Promise.race([order('a'), order('b')]); const c = await order('c'); r + '|' + c", {"order_dependent": True}),
    "race-3-then-order": ("const r = await Promise.race([order('a'), order('b'), order('c')]); const d = await order('d'); r + '|' + d", {"order_dependent": True}),
    "any-then-order": ("const r = await Promise.any([order('a'), order('b')]); const c = await order('c'); r + '|' + c", {"order_dependent": True}),
    "race-then-await-earlier": ("const pc = order('c'); const r = await Promise.race([order('a'), order('b')]); const c = await pc; r + '|' + c", {"order_dependent": True}),
    "race-twice": ("const r1 = await Promise.race([order('a'), order('b')]); const r2 = await Promise.race([order('c'), order('d')]); r1 + '|' + r2", {"order_dependent": True}),
    "order-in-callback": ("let r; try { r = [1, 2].map(x => order('a')); r = 'mapped:' + r.length; } catch (e) { r = 'C:' + (e && e.name); } r", {"twin": False, "order_dependent": True}),
    "cancel-after-race": ("const r = await Promise.race([order('a'), order('b')]); __cancelOrder__(2); __cancelOrder__(1); r", {"order_dependent": True, "twin": False}),
    "cancel-unknown": ("__cancelOrder__(42); const a = await order('a'); a", {"twin": False}),
    "await-non-host-between": ("const a = await order('a'); const z = await Promise.resolve('z'); const b = await order('b'); a + z + b", {}),
    "promise-ctor-order": ("const r = await new Promise(async (res, rej) => { try { res(await order('a')); } catch (e) { rej(e); } }); r", {}),
    "async-iife": ("const r = await (async () => { const a = await order('a'); return (async () => a + (await order('b')))(); })(); r", {}),
    "generator-driven": ("function* g(){ const a = yield 'a'; const b = yield 'b'; return a + b; } const it = g(); let s = it.next(); while (!s.done) { s = it.next(await order(s.value)); } s.value", {}),
    "class-method-orders": ("class S { pre = 'P'; async fetch(k){ const v = await order(k); return this.pre + v; } } const s = new S(); (await s.fetch('a')) + (await s.fetch('b'))", {}),
}
THOROUGH_EXTRA = {
    "all-4": ("const r = await Promise.all([order('a'), order('b'), order('c'), order('d')]); r.join()", {}),
    "seq-5": ("let r = ''; for (const k of ['a', 'b', 'c', 'd', 'e']) { r += await order(k); } r", {}),
    "two-alls": ("const x = await Promise.all([order('a'), order('b')]); const y = await Promise.all([order('c'), order('d')]); x.concat(y).join()", {}),
    "all-of-fns-3": ("async function g(k){ try { return await order(k); } catch (e) { return 'C'; } } (await Promise.all([g('a'), g('b'), g('c')])).join()", {}),
    "nested-6": ("async function g(k){ return (await order(k)) + (await order(k + '2')); } (await Promise.all([g('a'), g('b'), g('c')])).join()", {"payloads": None}),
}


def cases(tier):
    cs = []
    progs = dict(PROGRAMS)
    if tier != "quick":
        progs.update(THOROUGH_EXTRA)
    for name, (src, opt) in progs.items():
        c = {"id": "proto|" + name, "src": src, "depth": 7 if tier == "quick" else 12, "twin": True, "max_states": 60000 if tier == "quick" else 600000}
        pl = []
        for p in "abcde":
            pl += ["s:" + p] * (src.count("'%s'" % p) * 3 + src.count("order(k") * 2 + src.count("order(s.value") * 2)
        c["payloads"] = pl
        for k, v in opt.items():
            if v is None:
                c.pop(k, None)
            else:
                c[k] = v
        cs.append(c)
        g = dict(c)
        g["id"] = "proto-gc|" + name
        g["gc"] = True
        g["depth"] = 5 if tier == "quick" else 9
        cs.append(g)
    return cs


def run(tier, seed):
    return c07.run(tier, seed, pid=PID, cases_fn=cases, what="sequences, try/catch, Promise.all/race/any/allSettled over host promises, nested and parallel async functions, fire-and-forget orders, orders in finally/catch/callbacks, cancellation")


def replay(path):
    return c07.replay(path, pid=PID)
