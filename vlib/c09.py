"""C09 — module graphs load once, dependencies first, whatever the host's order.
Configurations: every DAG on <= 4 modules whose nodes are all reachable from the main module, with an
import kind per edge (named / default / namespace / re-export named / export *), spelling variants of the
specifiers and importer directories; larger families (chains, diamonds, trees, complete DAGs) to 8 modules.
Host schedules: explicit-state BFS (harness/src/modx.rs) - at every NeedImports any non-empty subset of
the not-yet-supplied modules (requested or early), a duplicate supply, or a step without supplying."""
import itertools, json, sys
from . import core

PID = "C09"
KINDS = ["named", "default", "namespace", "reexport", "star"]


def spec(frm_dir, to_path, variant):
    """relative specifier from a module in frm_dir ('/g' or '/g/d') to absolute to_path, in a spelling variant"""
    fparts = [p for p in frm_dir.split("/") if p]
    tparts = [p for p in to_path.split("/") if p]
    common = 0
    while common < len(fparts) and common < len(tparts) - 1 and fparts[common] == tparts[common]:
        common += 1
    rel = "../" * (len(fparts) - common) + "/".join(tparts[common:])
    if not rel.startswith("../"):
        rel = "./" + rel
    if variant == 1:
        rel = rel.replace("./", "././", 1) if rel.startswith("./") else "./" + rel
    elif variant == 2:
        rel = rel[: rel.rfind("/") + 1] + "x/../" + rel[rel.rfind("/") + 1:]
    elif variant == 3:
        return to_path
    return rel


def build(n, edges, kinds, layout=0, variant=0, dup=False, relay=False):
    """module 0 is main. Module k exports v<k> (a string computed at load time from what it imports), a
    counter c<k> with bump<k>() / get<k>() (live-binding views), a default function, plus whatever its
    're-export' and 'export *' edges add. The main module imports every name its named/namespace edges make
    visible (also names that arrive through re-exports), calls every bump it can see and reads every counter.
    The generator simulates this and returns the expected completion value and export names."""
    def path(k):
        if k == 0:
            return ["/g/main.ts", "/g/d/main.ts", "/main.ts"][layout % 3]
        sub = ["", "lib/", "d/e/"][(k + layout) % 3] if layout else ""
        return "/g/%sm%d.ts" % (sub, k)
    paths = [path(k) for k in range(n)]
    out_edges = {k: [(b, kind) for (a, b), kind in zip(edges, kinds) if a == k] for k in range(n)}
    # exported names (without 'default'): name -> origin ('v'|'c'|'bump'|'get', module)
    exports = {}
    for k in reversed(range(n)):
        ex = {"v%d" % k: ("v", k), "c%d" % k: ("c", k), "bump%d" % k: ("bump", k), "get%d" % k: ("get", k)}
        for b, kind in out_edges[k]:
            if kind == "reexport":
                ex["rb%d_%d" % (k, b)] = ("bump", b)
                ex["rc%d_%d" % (k, b)] = ("c", b)
            elif kind == "star":
                for nm, org in exports[b].items():
                    ex.setdefault(nm, org)
        if relay and out_edges[k]:
            b0 = out_edges[k][0][0]
            ex["lc%d" % k] = ("c", b0)
            ex["lb%d" % k] = ("bump", b0)
        exports[k] = ex
    vstr = {}
    for k in reversed(range(n)):
        vstr[k] = "%d[%s]" % (k, ",".join([vstr[b] for b, _ in out_edges[k]] + (["same"] if dup and len(out_edges[k]) >= 2 else [])))
    counters = {k: 0 for k in range(n)}
    srcs = {}
    deps = {}
    live_expected = []
    for k in range(n):
        pk = paths[k]
        d = pk[: pk.rfind("/")]
        lines = []
        reads = []
        lives = []
        deps[pk] = []
        for ei, (b, kind) in enumerate(out_edges[k]):
            sp = spec(d, paths[b], variant if (k + b) % 2 == 0 else 0)
            deps[pk].append(paths[b])
            names = sorted(exports[b])
            if kind == "named" or kind in ("reexport", "star"):
                if k == 0 and kind == "named":
                    lines.append("import { %s } from '%s';" % (", ".join("%s as i%d_%s" % (nm, ei, nm) for nm in names), sp))
                    calls = [nm for nm in names if exports[b][nm][0] == "bump"]
                    rds = [nm for nm in names if exports[b][nm][0] in ("c", "get")]
                    lives.append("(%s [%s].join('/'))" % ("".join("i%d_%s(), " % (ei, nm) for nm in calls), ", ".join(("i%d_%s()" if exports[b][nm][0] == "get" else "i%d_%s") % (ei, nm) for nm in rds)))
                    for nm in calls:
                        counters[exports[b][nm][1]] += 1
                    live_expected.append("/".join(str(counters[exports[b][nm][1]]) for nm in rds))
                    reads.append("i%d_v%d" % (ei, b))
                else:
                    lines.append("import { v%d as i%d_v%d } from '%s';" % (b, ei, b, sp))
                    reads.append("i%d_v%d" % (ei, b))
                    if k == 0:
                        lives.append("'%s'" % kind[:2])
                        live_expected.append(kind[:2])
                if kind == "reexport":
                    lines.append("export { bump%d as rb%d_%d, c%d as rc%d_%d } from '%s';" % (b, k, b, b, k, b, sp))
                elif kind == "star":
                    lines.append("export * from '%s';" % sp)
            elif kind == "default":
                lines.append("import dflt%d_%d, { v%d as i%d_v%d } from '%s';" % (ei, b, b, ei, b, sp))
                reads.append("i%d_v%d" % (ei, b))
                if k == 0:
                    lives.append("dflt%d_%d()" % (ei, b))
                    live_expected.append("D%d:%d" % (b, counters[b]))
            elif kind == "namespace":
                lines.append("import * as ns%d from '%s';" % (ei, sp))
                reads.append("ns%d.v%d" % (ei, b))
                if k == 0:
                    calls = [nm for nm in names if exports[b][nm][0] == "bump"]
                    rds = [nm for nm in names if exports[b][nm][0] in ("c", "get")]
                    lives.append("(%s Object.keys(ns%d).sort().join('+') + '=' + [%s].join('/'))" % ("".join("ns%d.%s(), " % (ei, nm) for nm in calls), ei, ", ".join(("ns%d.%s()" if exports[b][nm][0] == "get" else "ns%d.%s") % (ei, nm) for nm in rds)))
                    for nm in calls:
                        counters[exports[b][nm][1]] += 1
                    live_expected.append("+".join(sorted(names + ["default"])) + "=" + "/".join(str(counters[exports[b][nm][1]]) for nm in rds))
        if dup and len(out_edges[k]) >= 2:
            # the first dependency is imported a second time, in another spelling, AFTER the other imports (the
            # request list must still name it once), and once more right next to itself
            b0 = out_edges[k][0][0]
            lines.append("import { v%d as dupA%d } from '%s';" % (b0, k, spec(d, paths[b0], 2)))
            lines.append("import { v%d as dupB%d } from '%s';" % (b0, k, spec(d, paths[b0], 1)))
            reads.append("(dupA%d === dupB%d ? 'same' : 'DIFF')" % (k, k))
        if relay and out_edges[k]:
            # an imported binding handed on through a local export list: importers must see the live value
            b0 = out_edges[k][0][0]
            lines.append("import { c%d as relayc%d, bump%d as relayb%d } from '%s'; export { relayc%d as lc%d, relayb%d as lb%d };" % (b0, k, b0, k, spec(d, paths[b0], 0), k, k, k, k))
        lines.append("console.log('run:%s');" % pk)
        lines.append("export const v%d = '%d[' + [%s].join(',') + ']';" % (k, k, ", ".join(reads)))
        lines.append("export let c%d = 0; export function bump%d(){ c%d++; } export function get%d(){ return c%d; }" % (k, k, k, k, k))
        lines.append("export default function d%d(){ return 'D%d:' + c%d; }" % (k, k, k))
        if k == 0:
            lines.append("export const live = [%s].join('|');" % ", ".join(lives))
            lines.append("v0 + '#' + live")
        srcs[pk] = "\n".join(lines)
    expected_value = "s:" + vstr[0] + "#" + "|".join(live_expected)
    expected_exports = sorted(list(exports[0]) + ["default", "live"])
    return {"main": {"path": paths[0], "src": srcs[paths[0]]}, "modules": [[p, srcs[p]] for p in paths[1:]], "deps": deps, "expected_value": expected_value, "expected_exports": expected_exports}


def reachable_dags(n):
    pairs = [(i, j) for i in range(n) for j in range(i + 1, n)]
    for mask in range(1 << len(pairs)):
        es = [p for b, p in enumerate(pairs) if mask & (1 << b)]
        reach = {0}
        changed = True
        while changed:
            changed = False
            for a, b in es:
                if a in reach and b not in reach:
                    reach.add(b)
                    changed = True
        if len(reach) == n:
            yield es


def cases(tier):
    cs = []
    for n in (2, 3, 4):
        for gi, es in enumerate(reachable_dags(n)):
            if len(es) <= (2 if tier == "quick" else 3):
                kind_sets = list(itertools.product(KINDS, repeat=len(es)))
            else:
                kind_sets = [tuple(KINDS[(i + r) % len(KINDS)] for i in range(len(es))) for r in range(len(KINDS) if tier != "quick" else 2)]
            for ki, ks in enumerate(kind_sets):
                # 'star' on two edges leaving the same module would export clashing names (v/c/bump of different
                # modules never clash, but 'export *' of two modules both re-exporting a third would): keep it simple
                g = build(n, es, ks, layout=(gi + ki) % 3 if tier != "quick" else (gi % 2), variant=(gi + ki) % 4)
                g["id"] = "dag%d|%s|%s" % (n, "".join("%d%d" % e for e in es), ",".join(ks))
                g["mode"] = "subsets"
                cs.append(g)
    # repeated imports of one module (other spellings, non-adjacent and adjacent) and imported bindings handed on
    # through a local export list, on every small DAG shape with a fixed rotation of import kinds
    for n in (3, 4):
        for gi, es in enumerate(reachable_dags(n)):
            for r in range(2 if tier == "quick" else len(KINDS)):
                ks = tuple(KINDS[(i + r + gi) % len(KINDS)] for i in range(len(es)))
                for opt in ("dup", "relay", "dup+relay"):
                    if "dup" in opt and not any(sum(1 for a, _ in es if a == k) >= 2 for k in range(n)):
                        continue
                    g = build(n, es, ks, layout=(gi + r) % 3, variant=(gi + r) % 4, dup="dup" in opt, relay="relay" in opt)
                    g["id"] = "dagx%d|%s|%s|%s" % (n, "".join("%d%d" % e for e in es), ",".join(ks), opt)
                    g["mode"] = "subsets"
                    cs.append(g)
    # larger families, one module at a time + batches
    fams = {}
    for n in ([5, 6] if tier == "quick" else [5, 6, 7, 8]):
        fams["chain%d" % n] = (n, [(i, i + 1) for i in range(n - 1)])
        fams["fan-out%d" % n] = (n, [(0, j) for j in range(1, n)])
        fams["fan-in%d" % n] = (n, [(0, j) for j in range(1, n - 1)] + [(j, n - 1) for j in range(1, n - 1)])
        fams["ladder%d" % n] = (n, [(i, i + 1) for i in range(n - 1)] + [(i, i + 2) for i in range(n - 2)])
        if n <= 6:
            fams["complete%d" % n] = (n, [(i, j) for i in range(n) for j in range(i + 1, n)])
        fams["tree%d" % n] = (n, [((j - 1) // 2, j) for j in range(1, n)])
    for name, (n, es) in fams.items():
        for r in range(2 if tier == "quick" else 5):
            ks = tuple(KINDS[(i + r) % (3 if r < 1 else len(KINDS))] for i in range(len(es)))
            g = build(n, es, ks, layout=r % 3, variant=r % 4)
            g["id"] = "fam|%s|%d" % (name, r)
            g["mode"] = "single" if n > 5 else "subsets"
            g["max_states"] = 30000 if tier == "quick" else 300000
            cs.append(g)
    return cs


def run(tier, seed):
    chk = core.Check(PID, tier, seed, "model_checking")
    cs = cases(tier)
    res = core.run_batch(cs, sub_args=("modx",), hang_s=600, as_gb=2)
    states = trans = replays = outcomes = 0
    capped = []
    fam = {}
    for c in cs:
        o = res[c["id"]]
        kind = c["id"].split("|")[0]
        f = fam.setdefault(kind, {"graphs": 0, "states": 0, "transitions": 0, "graphs_with_violations": 0})
        f["graphs"] += 1
        if o.get("status") != "ok":
            f["graphs_with_violations"] += 1
            chk.fail("proc|" + c["id"], str(o.get("status")), "%s: worker %s" % (c["id"], o.get("status")), {"case": c}, cluster="process-level failure")
            continue
        states += o["states"]; trans += o["transitions"]; replays += o["replays"]; outcomes += o["distinct_outcomes"]
        f["states"] += o["states"]; f["transitions"] += o["transitions"]
        if o["capped"]:
            capped.append(c["id"])
        if o["nviol"]:
            f["graphs_with_violations"] += 1
            kinds_used = sorted(set(c["id"].split("|")[2].split(","))) if kind.startswith("dag") else []
            for v in o["violations"]:
                w = v["what"]
                chk.fail("%s|%s" % (c["id"], w[:60]), w[:300], "%s after host actions [%s]: %s" % (c["id"], " ".join(v["history"]), w[:400]), {"case": c, "history": v["history"]},
                         cluster=cluster_of(w, c))
    chk.coverage = {"states": max(states, 1), "transitions": max(trans, 1), "traces_validated_against_impl": replays, "distinct_outcomes": outcomes, "graphs": len(cs), "families": fam, "caps_hit": capped,
                    "samples": [{"graph": cs[5]["id"], "main": cs[5]["main"]["src"][:300], "history": ["Supply([1])", "StepOnly", "Supply([0])"]}],
                    "rule": "all DAGs on 2-4 modules reachable from the main module x import-kind assignments (all 5^e for <= 2 edges quick / 3 thorough, rotating beyond) x importer layouts and specifier spellings, plus chain/fan/ladder/tree/complete families to 6 (thorough 8) modules; per graph a BFS over host supply actions (any non-empty subset of the not-yet-supplied modules, a duplicate supply, a bare step) with every history replayed on a fresh interpreter; invariants: requests name only missing modules of the graph, once, under the canonical path with a real importer; loading terminates; every body runs exactly once and after its imports; completion value, export table and live-binding views equal the canonical schedule's"}
    chk.assumptions = ["evaluation order among independent modules is not asserted", "module bodies do not touch shared globals"]
    return chk.finish(exhaustive=not capped)


def cluster_of(w, c):
    kinds = set(c["id"].split("|")[2].split(",")) if c["id"].startswith("dag") else set()
    if w.startswith("result depends") or "E(" in w[:80]:
        if "star" in kinds:
            return "export * from: " + w[:50]
        if "reexport" in kinds:
            return "re-export named: " + w[:50]
    return w[:70]


def replay(path):
    rp = json.load(open(path))
    c = rp["case"]
    o = core.run_batch([c], sub_args=("modx",), hang_s=600, as_gb=2)[c["id"]]
    print(json.dumps({k: o.get(k) for k in ("states", "transitions", "nviol", "violations", "canonical")})[:3000])
    if o.get("status") != "ok" or o.get("nviol"):
        print("VIOLATION property=C09 replay=%s" % path)
        return 1
    return 0
