"""C14 — garbage is reclaimed: repeated work does not grow the heap.
Every program of the corpus is run k=8 times on one interpreter with collect() after each run;
live_objects must be constant for runs 3..8 (runs 1-2 may populate caches). Also under thresholds 1 and
100 (automatic collections in between)."""
import json, sys
from . import core, gen01, c02

PID = "C14"

EXTRA = {
    "generator-started": "{ function* g(){ yield 1; yield 2; } const it=g(); it.next(); }",
    "generator-exhausted": "{ function* g(){ yield {a:1}; } const r=[...g()]; }",
    "generator-abandoned-in-try": "{ function* g(){ try { yield {a:[1]}; yield 2; } finally { var z={}; } } const it=g(); it.next(); }",
    "generator-return": "{ function* g(){ try { yield 1; } finally { } } const it=g(); it.next(); it.return(5); }",
    "generator-throw": "{ function* g(){ try { yield 1; } catch (e) { yield {e:e}; } } const it=g(); it.next(); it.throw({x:1}); }",
    "yield-star": "{ function* i(){ yield {a:1}; } function* g(){ yield* i(); yield* [{b:2}]; } const it=g(); it.next(); it.next(); }",
    "closure-cycle": "{ const o={a:[1,2,3]}; o.self=o; (function(){ return o.a.map(function(x){ return x*2; }); })(); }",
    "closures-in-loop": "{ const fs=[]; for (let i=0;i<10;i++) { fs.push(function(){ return i; }); } fs[3](); }",
    "promise-settled": "{ const p=Promise.resolve({v:1}).then(function(x){ return {w:x}; }); const q=Promise.reject(new Error('x')).catch(function(e){ return {e:1}; }); }",
    "promise-pending-abandoned": "{ const p=new Promise(function(res,rej){ const keep={res:res}; }); p.then(function(){ return {}; }); }",
    "async-function": "{ async function f(x){ const y=await {v:x}; return {y:y}; } f(1); f(2); }",
    "async-arrow-in-loop": "{ for (let i=0;i<4;i++) { (async () => { await null; return {i}; })(); } }",
    "uncaught-error": "{ const big=[{a:1},{b:2}]; function f(){ throw new Error('boom'); } f(); }",
    "uncaught-error-deep": "{ function f(n){ const local={n:n}; if (n==0) throw new TypeError('deep'); return f(n-1); } f(6); }",
    "uncaught-in-callback": "{ [1,2,3].map(function(x){ const t={x:x}; if (x==2) throw {custom:t}; return t; }); }",
    "uncaught-in-finally": "{ try { const a={}; throw new Error('a'); } finally { const b={}; } }",
    "uncaught-in-generator": "{ function* g(){ const st={}; yield 1; throw new Error('g'); } const it=g(); it.next(); it.next(); }",
    "uncaught-in-class-ctor": "{ class C { f={a:1}; constructor(){ throw new RangeError('c'); } } new C(); }",
    "class-instances": "{ class C { #p={}; f=[1,2]; static s={}; m(){ return this.#p; } } const cs=[new C(),new C()]; cs[0].m(); }",
    "map-set": "{ const m=new Map(); for (let i=0;i<20;i++) m.set({k:i},{v:i}); const s=new Set(m.keys()); m.clear(); }",
    "weakmap": "{ const w=new WeakMap(); for (let i=0;i<10;i++) { w.set({k:i},{v:i}); } }",
    "regexp": "{ const r=/(\\d+)-(?<n>\\w+)/g; 'a 12-bc 3-d'.replace(r,function(m){ return m.length; }); 'x1y2'.split(/\\d/); }",
    "json": "{ const t=JSON.stringify({a:[1,{b:2}],c:'x'}); const v=JSON.parse(t,function(k,x){ return x; }); }",
    "proxy": "{ const p=new Proxy({a:1},{get:function(t,k){ return {k:k}; }}); p.a; p.b; Object.keys(p); }",
    "getter-setter": "{ const o={get g(){ return {x:1}; }, set s(v){ this._s={v:v}; }}; o.g; o.s=1; }",
    "symbols": "{ const s=Symbol('x'); const o={[s]:{a:1}}; Symbol.for('shared-key'); o[s]; }",
    "date": "{ const d=new Date(0); d.toISOString(); new Date(2020,1,1).getTime(); }",
    "string-builder": "{ let s=''; for (let i=0;i<50;i++) s+='k'+i; s.split('k').map(function(x){ return {x:x}; }); }",
    "destructuring": "{ const {a,b:[c,...d],...e}={a:1,b:[2,3,4],x:{y:1},z:[1]}; const [p,[q]]=[{},[{}]]; }",
    "label-break": "{ outer: for (let i=0;i<3;i++) { for (let j=0;j<3;j++) { const t={i,j}; if (j==1) continue outer; if (i==2) break outer; } } }",
    "switch-scope": "{ function f(x){ switch(x){ case 1: { let a={}; return a; } default: { let b=[{}]; return b; } } } f(1); f(2); }",
    "try-finally-return": "{ function f(){ try { return {a:1}; } finally { const z={}; } } f(); f(); }",
    "nested-functions": "{ function outer(){ const data=[{},{},{}]; function inner(){ return data.map(function(d){ return function(){ return d; }; }); } return inner(); } outer()[1](); }",
    "bind-call-apply": "{ function f(a){ return {t:this,a:a}; } const b=f.bind({x:1},{y:2}); b(); f.call({},{}); f.apply({},[{}]); }",
    "array-methods": "{ const a=[3,1,2].map(function(x){ return {x:x}; }); a.sort(function(p,q){ return p.x-q.x; }); a.filter(function(o){ return o.x>1; }).reduce(function(s,o){ return {s:s.s+o.x}; },{s:0}); }",
    "tagged-template": "{ function t(s,...v){ return {s:s,v:v}; } t`a${{x:1}}b${[1]}`; }",
    "object-spread": "{ const a={x:{y:1}}; const b={...a,z:[...[1,2,{q:1}]]}; Object.assign({},b,a); Object.entries(b); }",
    "order-import-unused": "import { order } from 'tsrun:host'; { const x={a:1}; }",
    "order-roundtrip": "import { order } from 'tsrun:host'; { const r=await order({k:[1,2]}); const keep={r:r}; }",
    "order-in-async-fn": "import { order } from 'tsrun:host'; { async function f(k){ const v=await order({k}); return {v}; } await f(1); await f(2); }",
    "promise-all-orders": "import { order } from 'tsrun:host'; { const rs=await Promise.all([order('a'),order('b')]); }",
}


def programs(tier):
    out = []
    for k, s in EXTRA.items():
        out.append({"id": "extra|" + k, "src": s})
    for name, expr in c02.NATIVES.items():
        out.append({"id": "native|" + name, "src": "(function(){ " + c02.PRE + " return " + expr + "; })()"})
    for f in ["class", "pattern", "gen", "scope", "flow2", "lib"]:
        cs = [c for c in gen01.FAMILIES[f]() if c.quick]
        stride = max(1, len(cs) // (30 if tier == "quick" else 250))
        for c in cs[::stride]:
            out.append({"id": "c01|" + c.id, "src": c.src})
    return out


def run(tier, seed):
    chk = core.Check(PID, tier, seed, "exploration")
    base = programs(tier)
    cases = []
    for gc in ([None, 1] if tier == "quick" else [None, 1, 100, 3]):
        for p in base:
            c = dict(p)
            c["id"] = "%s|gc=%s" % (p["id"], gc)
            if gc is not None:
                c["gc"] = gc
            c["k"] = 8
            c["budget"] = 400000
            cases.append(c)
    # the same repetition on interpreters with a past: an earlier module run (completed, failed, abandoned on an
    # order), another program between the repetitions, the eval() entry point, and the program itself as a module
    MODRUN = {"src": "export const h = [1, {a: 2}]; export function hf(){ return h; } h.length", "path": "/h/main.ts"}
    REGIMES = {
        "after-module-run": {"history": [MODRUN]},
        "after-failed-module-run": {"history": [{"src": "export const h = {a: 1}; throw new Error('x');", "path": "/h/failed.ts"}]},
        "after-abandoned-order-run": {"history": [{"src": "import { order } from 'tsrun:host'; export const h = 1; const v = await order({big: [1, 2, 3]}); v", "path": "/h/ab.ts", "answer_orders": False}]},
        "module-run-between": {"between": [MODRUN]},
        "script-run-between": {"between": [{"src": "(function(){ return [{}, {}].length; })()"}]},
        "via-eval": {"entry": "eval"},
        "via-eval-after-module-run": {"entry": "eval", "history": [MODRUN]},
    }
    sub = [p for p in base if p["id"].startswith("extra|")] + [p for p in base if not p["id"].startswith("extra|")][:: (12 if tier == "quick" else 3)]
    for rn, reg in REGIMES.items():
        for p in sub:
            c = dict(p)
            c.update(reg)
            c["id"] = "%s|%s" % (p["id"], rn)
            c["k"] = 8
            c["budget"] = 400000
            cases.append(c)
    res = core.run_batch(cases, sub_args=("leak",), hang_s=120, as_gb=2)
    total = 0
    stable = set()
    fam = {}
    for c in cases:
        o = res[c["id"]]
        kind = c["id"].split("|")[0]
        f = fam.setdefault(kind, {"programs": 0, "growing": 0})
        f["programs"] += 1
        total += 8
        name = c["id"].split("|")[1]
        last = c["id"].rsplit("|", 1)[1]
        regime = last if not last.startswith("gc=") else ""
        if o.get("status") != "ok":
            f["growing"] += 1
            chk.fail("proc|" + c["id"] + c["src"], str(o.get("status")), "%s: worker %s during repeated runs" % (c["id"], o.get("status")), {"src": c["src"], "gc": c.get("gc")}, cluster="process-level failure: " + name[:50])
            continue
        lives = o["lives"]
        tail = lives[2:]
        if len(set(tail)) != 1:
            f["growing"] += 1
            delta = [b - a for a, b in zip(tail, tail[1:])]
            chk.fail("leak|" + c["id"] + c["src"], "delta %s" % delta, "%s: live objects after collect() over 8 runs: %s (outcome of each run: %s)" % (c["id"], lives, o["outs"][0][:60]),
                     {"src": c["src"], "gc": c.get("gc")}, cluster=("every module run leaves its environment and namespace object rooted for the life of the interpreter (a module run between the repetitions)" if regime == "module-run-between" and len(set(delta)) == 1
                              else "heap grows with repetition%s: %s" % ((" (" + regime + ")") if regime else "", name[:60])))
        else:
            stable.add((c["src"], lives[-1]))
    chk.coverage = {"evaluations": total, "distinct_nontrivial": len(stable), "families": fam, "programs": len(base),
                    "samples": [{"id": cases[0]["id"], "src": cases[0]["src"], "runs": 8}, {"id": cases[60]["id"], "src": cases[60]["src"][:160]}],
                    "rule": "every program of the corpus (self-contained blocks/IIFEs: generators started/abandoned/returned/thrown, closures and cycles, promises, async functions, uncaught errors at several depths, classes, Map/Set/WeakMap, proxies, order round trips, the C02 allocating-native templates and a slice of the C01 families) x GC threshold {default, 1 (thorough: 100, 3)} is run 8 times on one interpreter with collect() after each run; live_objects must be equal for runs 3..8; non-trivial = distinct (program, steady live count) pairs that are stable"}
    chk.assumptions = ["runs 1-2 may populate interning/caches; growth is judged on runs 3..8", "order-issuing programs are answered immediately by the host"]
    return chk.finish(exhaustive=True)


def replay(path):
    rp = json.load(open(path))
    c = {"id": "r", "src": rp["src"], "k": 8, "budget": 400000}
    if rp.get("gc") is not None:
        c["gc"] = rp["gc"]
    o = core.run_batch([c], sub_args=("leak",), hang_s=120, as_gb=2)["r"]
    print(o.get("lives"), o.get("outs", [""])[0][:100])
    if o.get("status") != "ok" or len(set(o["lives"][2:])) != 1:
        print("VIOLATION property=C14 replay=%s" % path)
        return 1
    return 0
