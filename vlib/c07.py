"""C07 — suspending and resuming is transparent to the program.
Programs with `await order(..)` planted at every syntactic position of a template list; the host side is an
explicit-state exploration (harness/src/orders.rs): from every Suspended state every enabled host action
(answer with a value, an error, a pending host promise settled later either way, all at once, duplicate and
unknown ids, one or two spurious step() calls), optionally with a forced collection before each action.
Oracles: the final outcome equals the same program run with a synchronous in-program order() stub that
gives the same answers (no suspension at all); outcome independent of the schedule for a fixed answer
assignment; spurious steps change nothing."""
import json, sys
from . import core

PID = "C07"
A = "await order('a')"
B = "await order('b')"
C = "await order('c')"

PROGRAMS = {
    # position: plain statements / expressions
    "top-level": "const v = %s; console.log(v); v" % A,
    "two-sequential": "const a = %s; const b = %s; console.log(a + b); a + b" % (A, B),
    "in-argument": "function f(x, y){ return x + '|' + y; } const r = f('p', %s); r" % A,
    "in-binary": "const r = 'x' + (%s) + 'y' + (%s); r" % (A, B),
    "in-template": "const r = `<${%s}>-<${%s}>`; r" % (A, B),
    "in-condition": "let r; if ((%s) === 'v:s:a') { r = 'yes'; } else { r = 'no'; } r" % A,
    "in-ternary": "const t = true; const r = t ? (%s) : 'no'; r" % A,
    "in-array-literal": "const r = [1, %s, 3, %s]; r.join()" % (A, B),
    "in-object-literal": "const r = {x: 1, y: %s, [(%s)]: 2}; JSON.stringify(r)" % (A, B),
    "compound-assign": "let s = 'p'; s += %s; s += %s; s" % (A, B),
    "destructuring-default": "async function f(){ const {x = %s, y = 2} = {}; const [p = %s] = []; return x + p + y; } await f()" % (A, B),
    "param-default": "async function f(x = 1){ const y = %s; return x + y; } await f()" % A,
    "optional-chain": "const o = {m(x){ return 'm' + x; }}; const r = o?.m(%s); r" % A,
    "spread-arg": "function f(...xs){ return xs.join(); } const r = f(...[1, %s], %s); r" % (A, B),
    "logical-ops": "const r = (null ?? (%s)) && ((%s) || 'z'); r" % (A, B),
    "switch-discriminant": "let r = ''; switch (%s) { case 'v:s:a': r = 'A'; break; default: r = 'D'; } r" % A,
    "switch-case-body": "let r = ''; switch (1) { case 1: { let s = %s; r += s; } case 2: r += 'ft'; break; default: r = 'D'; } r" % A,
    # loops
    "for-loop-body": "let r = ''; for (let i = 0; i < 2; i++) { r += i + ':' + (%s) + ';'; } r" % A,
    "for-loop-closure": "const fs = []; for (let i = 0; i < 2; i++) { const v = %s; fs.push(() => i + v); } fs.map(f => f()).join()" % A,
    "while-break": "let r = '', i = 0; while (true) { i++; const v = %s; if (i == 2) break; r += v; } r + i" % A,
    "do-while-continue": "let r = '', i = 0; do { i++; if (i == 1) { %s; continue; } r += i; } while (i < 3); r" % A,
    "for-of-array": "let r = ''; for (const x of ['p', 'q']) { r += x + (%s); } r" % A,
    "for-of-generator": "function* g(){ yield 1; yield 2; } let r = ''; for (const x of g()) { r += x + (%s); } r" % A,
    "for-in": "let r = ''; for (const k in {p: 1, q: 2}) { r += k + (%s); } r" % A,
    "labelled-continue": "let r = ''; outer: for (let i = 0; i < 2; i++) { for (let j = 0; j < 2; j++) { if (j == 1) { %s; continue outer; } r += i + '' + j; } } r" % A,
    "block-shadowing": "let s = 'outer'; { let s = 'inner'; const v = %s; s += v; } s" % A,
    # exceptions
    "try-body": "let r; try { r = %s; } catch (e) { r = 'C:' + e; } finally { r += '|f'; } r" % A,
    "catch-body": "let r; try { throw 'T'; } catch (e) { r = e + (%s); } r" % A,
    "finally-body": "let r = ''; try { r += 't'; } finally { r += %s; } r" % A,
    "finally-pending-return": "async function f(){ try { return 'R'; } finally { %s; } } const r = await f(); console.log(r); r" % A,
    "finally-pending-throw": "async function f(){ try { throw 'T'; } finally { %s; } } let r; try { r = await f(); } catch (e) { r = 'caught:' + e; } r" % A,
    "finally-pending-break": "let r = ''; for (let i = 0; i < 3; i++) { try { if (i == 1) break; r += i; } finally { r += %s; } } r" % A,
    "finally-pending-continue": "let r = ''; for (let i = 0; i < 3; i++) { try { if (i == 1) continue; r += i; } finally { r += (%s).length; } } r" % A,
    "finally-overrides": "async function f(){ try { return 'R'; } finally { const v = %s; if (v) return 'F:' + v; } } await f()" % A,
    "nested-try": "let r = ''; try { try { r += %s; throw 'X'; } finally { r += '|in'; r += %s; } } catch (e) { r += '|c' + e; } r" % (A, B),
    "throw-after-await": "async function f(){ const v = %s; throw new RangeError(v); } let r; try { await f(); } catch (e) { r = e.name + ':' + e.message; } r" % A,
    "error-answer-caught": "let r; try { r = %s; } catch (e) { r = 'caught:' + e; } const b = %s; r + '|' + b" % (A, B),
    # functions, this, closures
    "method-this": "class K { x = 5; async m(){ const v = %s; return this.x + v; } } await new K().m()" % A,
    "method-this-twice": "class K { x = 5; async m(){ %s; this.x++; %s; return this.x; } } await new K().m()" % (A, B),
    "object-method-this": "const o = {n: 'N', async m(){ const v = %s; return this.n + v; }}; await o.m()" % A,
    "arrow-this": "class K { x = 7; m(){ return (async () => { const v = %s; return this.x + v; })(); } } await new K().m()" % A,
    "static-method": "class K { static s = 'S'; static async m(){ const v = %s; return this.s + v; } } await K.m()" % A,
    "getter-callee": "async function load(){ return %s; } const o = {get g(){ return load(); }}; await o.g" % A,
    "constructor-callee": "async function init(t){ t.v = %s; } class K { constructor(){ this.p = init(this); } } const k = new K(); await k.p; k.v" % A,
    "super-method": "class B { async m(){ return 'B' + (%s); } } class D extends B { async m(){ const s = await super.m(); return 'D' + s; } } await new D().m()" % A,
    "nested-async-1": "async function f(){ return 'f' + (%s); } await f()" % A,
    "nested-async-2": "async function g(){ return 'g' + (%s); } async function f(){ const x = await g(); return 'f' + x + (%s); } await f()" % (A, B),
    "nested-async-3": "async function h(){ return %s; } async function g(){ return 'g' + (await h()); } async function f(){ return 'f' + (await g()); } await f()" % A,
    "arguments-after": "async function f(a, b){ const v = %s; return arguments.length + a + b + v; } await f('x', 'y')" % A,
    "closure-captured": "function mk(){ let c = 0; return async function(){ c++; const v = %s; c++; return c + v; }; } const f = mk(); await f()" % A,
    "recursive-async": "async function r(n){ if (n == 0) return %s; return n + (await r(n - 1)); } await r(2)" % A,
    "callback-then": "const p = (async () => %s)(); const r = await p.then(v => v + '!'); r" % A,
    "new-target": "async function F(){ const v = %s; return v; } const r = await F(); r" % A,
    "generator-driver": "function* g(){ const x = yield 1; yield x + 1; } async function f(){ const it = g(); it.next(); const v = %s; return it.next(v.length).value; } await f()" % A,
    "local-vars-many": "async function f(){ let a = 1, b = 'b', c = [1, 2], d = {k: 1}; const v = %s; a++; c.push(3); d.k++; return [a, b, c.join(), d.k, v].join('|'); } await f()" % A,
    "let-tdz-after": "async function f(){ const v = %s; let late = v + 'L'; return late; } await f()" % A,
    "var-hoisted": "async function f(){ x = 'pre'; const v = %s; var x; return x + v; } await f()" % A,
    "await-in-loop-of-async": "async function one(k){ return k + (await order(k)); } let r = ''; for (const k of ['a', 'b']) { r += await one(k); } r",
    "three-sequential": "const a = %s; const b = %s; const c = %s; [a, b, c].join()" % (A, B, C),
    "promise-all-two": "const r = await Promise.all([order('a'), order('b')]); r.join()",
    # caller-frame state while a CALLEE is the one that suspends (two or more frames saved; every frame has
    # its own pending completion / handled exception / block scopes / this)
    "caller-in-finally-pending-return": "const L = []; async function inner(){ const v = %s; return 'inner:' + v; } async function outer(){ try { return 'from-try'; } finally { L.push(await inner()); L.push('finally-done'); } } const r = await outer(); L.join() + ' => ' + r" % A,
    "caller-in-finally-pending-throw": "const L = []; async function inner(){ const v = %s; return 'inner:' + v; } async function outer(){ try { throw 'X'; } finally { L.push(await inner()); } } let r; try { r = await outer(); } catch (e) { r = 'caught:' + e; } L.join() + ' => ' + r" % A,
    "callee-in-finally-pending-return": "const L = []; async function inner(){ try { return 'iv'; } finally { L.push(%s); } } async function outer(){ try { L.push(await inner()); } finally { L.push('of'); } return 'o'; } const r = await outer(); L.join() + ' => ' + r" % A,
    "both-frames-pending": "const L = []; async function inner(){ try { return 'iv'; } finally { L.push(%s); } } async function outer(){ try { return 'ov'; } finally { L.push(await inner()); } } const r = await outer(); L.join() + ' => ' + r" % A,
    "caller-in-catch-callee-suspends": "const L = []; async function inner(){ return %s; } async function outer(){ try { throw 'E1'; } catch (e) { const v = await inner(); return e + ':' + v; } } await outer()" % A,
    "caller-pending-break-callee-suspends": "async function inner(){ return %s; } async function outer(){ let r = ''; for (let i = 0; i < 3; i++) { try { if (i == 1) break; r += i; } finally { r += await inner(); } } return r; } await outer()" % A,
    "sync-caller-in-finally-blocking-callee": "const L = []; function inner(){ return order('a'); } function outer(){ try { return 'from-try'; } finally { L.push(inner()); L.push('fd'); } } const r = outer(); L.join() + ' => ' + r",
    "sync-caller-pending-throw-blocking-callee": "const L = []; function inner(){ return order('a'); } function outer(){ try { throw 'X'; } finally { L.push(inner()); } } let r; try { r = outer(); } catch (e) { r = 'caught:' + e; } L.join() + ' => ' + r",
    "three-frames-middle-pending": "const L = []; async function c(){ return %s; } async function b(){ try { return 'bv'; } finally { L.push(await c()); } } async function a(){ const x = await b(); L.push('a:' + x); return x; } const r = await a(); L.join() + ' => ' + r" % A,
    "caller-block-scope-and-this": "class K { tag = 'T'; async inner(){ return %s; } async outer(){ let s = 'o'; { let s = 'blk'; const v = await this.inner(); s += v; return this.tag + s; } } } await new K().outer()" % A,
    # several orders outstanding (markers from a native callback), awaited one by one inside loop / try-finally / callee
    "markers-batch-loop-finally": "const L = []; async function run(){ const m = ['a', 'b', 'c'].map(order); let out = ''; for (const [i, p] of m.entries ? [[0, m[0]], [1, m[1]], [2, m[2]]] : []) { try { out += await p; } finally { L.push('f' + i); } } return out; } const r = await run(); r + '|' + L.join()",
    "markers-batch-callee": "async function take(p){ const v = await p; return '<' + v + '>'; } const m = ['a', 'b'].map(order); const y = await take(m[1]); const x = await take(m[0]); x + y",
    "await-non-promise-between": "const a = %s; const z = await 5; const b = %s; a + z + b" % (A, B),
}


NESTED = ("getter-callee", "promise-ctor-order", "then-chain", "order-in-callback")


def cluster_of(name, src, head):
    if name in NESTED:
        return "order()/await inside a callback that a native runs in a nested VM (getter, Promise executor, then-callback, array callback) cannot suspend"
    if name.startswith("markers-from-callback") and "Promise.all" in src:
        return "Promise.all over order markers obtained from a native callback (Array.from(xs, order)) treats the markers as plain values"
    if "Promise.any" in src:
        return "Promise.any over still-pending host promises never settles"
    if "Promise.allSettled" in src:
        return "Promise.allSettled over still-pending host promises settles at once with 'pending' entries"
    return "%s: %s" % (name, head[:90])


def payloads(src):
    out = []
    for p in ("a", "b", "c"):
        out += ["s:" + p] * (src.count("order('%s')" % p) * 3 + src.count("order(k)") * 2)
    return out


def cases(tier):
    cs = []
    for name, src in PROGRAMS.items():
        depth = 6 if tier == "quick" else 9
        extra = {} if ".map(order)" in src else {"payloads": payloads(src)}   # payloads handed to order() by a native are not countable from the text
        cs.append(dict({"id": "pos|" + name, "src": src, "depth": depth, "twin": True}, **extra))
        cs.append(dict({"id": "pos-gc|" + name, "src": src, "depth": depth if tier != "quick" else 5, "twin": True, "gc": True}, **extra))
    return cs


def run(tier, seed, pid=PID, cases_fn=cases, what="await positions"):
    chk = core.Check(pid, tier, seed, "model_checking")
    cs = cases_fn(tier)
    res = core.run_batch(cs, sub_args=("orders",), hang_s=300, as_gb=2)
    states = trans = replays = 0
    outcomes = 0
    fam = {}
    capped = []
    cut = 0
    for c in cs:
        o = res[c["id"]]
        kind, name = c["id"].split("|", 1)
        f = fam.setdefault(kind, {"programs": 0, "states": 0, "transitions": 0, "programs_with_violations": 0})
        f["programs"] += 1
        if o.get("status") != "ok":
            f["programs_with_violations"] += 1
            chk.fail("proc|" + c["id"] + c["src"], str(o.get("status")), "%s: worker %s" % (c["id"], o.get("status")), {"case": c}, cluster="process-level failure: " + name)
            continue
        states += o["states"]; trans += o["transitions"]; replays += o["replays"]; outcomes += o["distinct_outcomes"]; cut += o["cut_at_depth"]
        f["states"] += o["states"]; f["transitions"] += o["transitions"]
        if o["capped"]:
            capped.append(c["id"])
        if o["nviol"]:
            f["programs_with_violations"] += 1
            for v in o["violations"]:
                w = v["what"]
                head = w.split(":")[0] if w[:2] in ("I1", "I2", "I3", "I4", "I5") else w.split(" (")[0][:70]
                chk.fail("%s|%s|%s" % (c["id"], c["src"], head), w[:400], "%s after host actions [%s]: %s" % (c["id"], " ".join(v["history"]), w[:500]),
                         {"case": c, "history": v["history"]}, cluster=cluster_of(name, c["src"], head))
    chk.coverage = {"states": max(states, 1), "transitions": max(trans, 1), "traces_validated_against_impl": replays, "distinct_outcomes": outcomes, "programs": len(cs), "families": fam,
                    "histories_cut_at_depth_bound": cut, "caps_hit": capped,
                    "samples": [{"program": cs[0]["src"], "history": ["Defer(1)", "Spurious", "Resolve(1)"]}, {"program": cs[-1]["src"], "history": ["Val(1)", "Err(2)"]}],
                    "rule": "for each program (%s) breadth-first exploration of the host's action space from every Suspended state: answer any outstanding order with a value / an error / a pending host promise, settle any outstanding host promise either way, answer all at once, repeat an answered id, answer an unknown id, step once or twice with nothing ready; state key = (orders issued with payloads, answers, cancellations, unsettled host promises, last result kind, console log); every transition replays the history on a fresh real interpreter; histories are followed to termination or the depth bound" % what}
    chk.assumptions = ["the in-program stub models order() as the blocking syscall it is documented to be: value answers return the value, error answers throw at the call, deferred answers return a promise", "uncaught errors are compared as a fact plus the console log (the rendering of a thrown value depends on the delivery path)"]
    return chk.finish(exhaustive=not capped)


def replay(path, pid=PID):
    rp = json.load(open(path))
    c = rp["case"]
    o = core.run_batch([c], sub_args=("orders",), hang_s=300, as_gb=2)[c["id"]]
    print(json.dumps({k: o.get(k) for k in ("states", "transitions", "nviol", "violations")})[:3000])
    if o.get("status") != "ok" or o.get("nviol"):
        print("VIOLATION property=%s replay=%s" % (pid, path))
        return 1
    return 0
