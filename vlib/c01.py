"""C01 — programs in the supported core evaluate as ECMAScript specifies.
Each family is a closed alphabet enumerated completely up to a bound (vlib/gen01.py); expected
observations come from committed golden tables built once with the reference engine."""
import json, os, sys, zlib
from . import core, prog, gen01

PID = "C01"


def load_mstate(name):
    p = prog.golden_path(name)
    if not os.path.exists(p):
        raise core.MachineryError("golden table missing: " + p)
    lines = zlib.decompress(open(p, "rb").read()).decode().split("\n")
    hdr = json.loads(lines[0])
    if hdr["sigma_digest"] != core.sha("\0".join(gen01.STATE_SIGMA) + gen01.STATE_INIT, 16):
        raise core.MachineryError("M-state golden table was built for a different statement alphabet; regenerate")
    edges = [json.loads(l) for l in lines[1:] if l.strip()]
    return hdr, edges


_NUM = None


def approx_match(got, gold):
    """Number::exponentiate and Math.pow are implementation-approximated (ECMA-262 6.1.6.1.3, 21.3.2.26):
    for programs that use them, numbers may differ from the reference engine's in the last place
    (relative 2^-51).  Everything that is not a number must still be identical."""
    import re
    global _NUM
    if _NUM is None:
        _NUM = re.compile(r"-?\d+p-?\d+|-?\d+(?:\.\d+)?(?:e[+-]?\d+)?")

    def val(t):
        if "p" in t:
            m, e = t.split("p")
            return int(m) * 2.0 ** int(e)
        return float(t)
    gold = gold.replace("\\n", "\n")
    got = got.replace("\\n", "\n")
    for g in gold.split(prog.ALT):
        if _NUM.split(got) != _NUM.split(g):
            continue
        a, b = _NUM.findall(got), _NUM.findall(g)
        if len(a) == len(b) and all(x == y or abs(val(x) - val(y)) <= 2.0 ** -51 * max(abs(val(x)), abs(val(y))) for x, y in zip(a, b)):
            return True
    return False


def uses_pow(src):
    return "**" in src or "Math.pow" in src


# root cause per program of the misc family (hand-written while triaging; programs not listed cluster by name)
MISC_CAUSE = {
        "objlit-super": "super.method() inside an object literal method is a SyntaxError",
    "object-tostring-tags": "the arguments object is a plain array ([object Array], Array.isArray true, no callee, no aliasing)",
    "arguments-object": "the arguments object is a plain array ([object Array], Array.isArray true, no callee, no aliasing)",
    "symbol-coercion-errors": "[sym].join() does not throw; Object(sym) == sym is false",
    "string-iterator-and-entries": "Array.prototype.keys()/entries() return arrays (pinned by the repository's tests); string iterator objects lack [Symbol.iterator]",
    "tagged-template": "tagged templates: no raw strings (strings.raw holds cooked text), the strings array is neither frozen nor cached per site; String.raw is missing",
        "default-params-scope": "default parameter initialisers share the scope of the function body (a closure in a default sees the body's var)",
        "function-props": "function metadata: no name for functions under computed keys, methods own a prototype object, getter names lack the 'get ' prefix",
        "new-semantics": "new on a method or a built-in function that is not a constructor does not throw",
    "array-like-generic-methods": "Array.prototype methods called on array-likes (non-arrays) throw",
    "array-holes": "array holes are stored as undefined (dense array representation)",
    "array-species-length": "array holes are stored as undefined (dense array representation); an element far beyond the dense limit does not move length",
    "string-methods-misc": "strings are not sequences of UTF-16 code units (astral characters / surrogate escapes)",
        "date-basics": "Date.parse does not roll an out-of-range day over (2020-02-30 is invalid instead of March 1)",
    "json-misc": "strings are not sequences of UTF-16 code units (astral characters / surrogate escapes)",
    "map-set-semantics": "WeakMap and WeakSet are not defined",
    "proxy-traps": "Proxy: ownKeys/getOwnPropertyDescriptor traps are not consulted by Object.keys, JSON.stringify of a proxy gives null",
    "reflect-api": "Reflect.defineProperty answers true where the definition is refused",
    "typeof-and-tdz": "temporal dead zone inside function bodies is not enforced",
            "octal-and-strict-syntax-errors": "early errors not reported: duplicate labels, var/let clash in a for-of body, function declaration as if-body, call on an arrow body, super outside a method",
    "iterator-close-protocol": "iterator close protocol",
}


def cluster_of(family, cid, got, gold):
    try:
        return _cluster_of(family, cid, got, gold)
    except Exception:
        return family + ": other"


def _cluster_of(family, cid, got, gold):
    """Root-cause bucket of a failing case (used only for grouping known findings)."""
    import re
    if "<hole>" in gold and "<hole>" not in got:
        return "array holes are stored as undefined (dense array representation)"
    if "\\ud83d" in gold and "\\ud83d" not in got:
        return "strings are not sequences of UTF-16 code units (astral characters / surrogate escapes)"
    if got.startswith("death") or got.startswith("hang") or got.startswith("panic"):
        m = re.search(r":([A-Za-z.]+)[\(=][^:]*$", cid)
        return "%s: process-level failure (%s) in %s" % (family, got.split("|")[0], m.group(1) if m else re.sub(r"[0-9]+", "N", cid)[:40])
    if family == "expr":
        m = re.match(r"expr:(\w+):(.*)$", cid)
        kind, body = m.group(1), m.group(2)
        if kind == "bin":
            for o in [" >>> ", " === ", " !== ", " ** ", " == ", " != ", " <= ", " >= ", " << ", " >> ", " && ", " || ", " ?? ", " + ", " - ", " * ", " / ", " % ", " < ", " > ", " & ", " | ", " ^ ", " , "]:
                if o in body:
                    return "expr: binary operator %s" % o.strip()
        if kind == "asg":
            return "expr: compound assignment %s" % re.search(r" (\S+=) ", body).group(1)
        if kind == "upd":
            return "expr: update expression %s on non-number operand" % body.split(":")[0]
        return "expr: unary %s" % body[:7]
    if family == "forms":
        from . import gen01
        return "forms: " + gen01.FORMS[int(cid.split(":")[1])]
    if family.startswith("flow"):
        if got.startswith("budget"):
            return "flow: loop never terminates (continue inside switch/labelled block)"
        gt = got.split("|")[1] if "|" in got else got
        rt = gold.split("|")[1] if "|" in gold else gold
        a, b = gt.split(","), rt.split(",")
        extra = sorted(set(re.sub(r"[0-9_]+", "", t) for t in a) - set(re.sub(r"[0-9_]+", "", t) for t in b))
        if len(a) > len(b) and all(t.startswith("s:fi") or t.startswith("fi") for t in a[len(b) - 1:] if t not in b[-2:]):
            return "flow: finally block runs a second time after a caught exception"
        ca = [re.sub(r"[0-9_]+", "", t) for t in a]
        cb = [re.sub(r"[0-9_]+", "", t) for t in b]
        if ca == cb:
            return "flow: block scope left installed by break/continue (shadowing let leaks)"
        return "flow: control transfer differs (extra %s)" % ",".join(extra)[:40]
    if family == "mstate":
        return "mstate: " + cid
    if family == "lib":
        parts = cid.split(":")
        if parts[1] == "script":
            return "lib script: " + parts[2]
        rest = cid[len("lib:" + parts[1]) + 1:]
        m = re.search(r":([A-Za-z.]*?[A-Za-z]+)[\(=]", ":" + rest.split(":", 1)[-1])
        name = m.group(1) if m else re.sub(r"^.*:", "", rest)[:24]
        if re.search(r":\[[^\]]*\]$", cid):
            name = "index access [non-index key]"
        return "lib %s.%s" % (parts[1], name)
    if family == "scope":
        parts = cid.split(":")
        return "scope: %s %s" % (parts[1], parts[3] if parts[1] == "fn" else parts[2] if parts[1] == "loop" else parts[3])
    if family == "pattern":
        return "pattern: " + cid.split(":", 2)[2].split("=")[0] + (" (" + cid.split(":")[1] + ")" if got.startswith("err||SyntaxError") else "")
    if family == "class":
        for feat, name in (("in-private", "class: '#x in obj' brand check is a SyntaxError"), ("new-target", "class: new.target in a constructor is a SyntaxError"), ("symbol-iter", "class: generator method named [Symbol.iterator] is not iterable")):
            if feat in cid:
                return name
        return "class: " + cid.split(":")[-1]
    if family == "gen":
        from . import gen01
        return "generator protocol, body: " + gen01.GEN_BODIES[int(cid.split(":")[1])][:60]
    if family == "misc":
        return "misc: " + MISC_CAUSE.get(cid.split(":")[1].split("#")[0], cid.split(":")[1].split("#")[0])
    if family == "await":
        return "await: " + ":".join(cid.split(":")[1:3])
    if family == "expr2":
        m = re.search(r"\) (\S+) ", cid)
        return "expr2: nested operators (outer %s)" % (m.group(1) if m else "?")
    return family


def run(tier, seed, only=None):
    chk = core.Check(PID, tier, seed, "model_checking")
    fams = list(gen01.QUICK_FAMILIES) + (gen01.THOROUGH_ONLY if tier == "thorough" else [])
    if only:
        fams = [f for f in fams if f in only]
    total = 0
    nontrivial = set()
    perfam = {}
    samples = []
    approx = 0
    for f in fams:
        cases = gen01.FAMILIES[f]()
        gold = prog.read_golden("C01." + f, f, cases)
        sel = [(c, g) for c, g in zip(cases, gold) if tier == "thorough" or c.quick]
        res = prog.tsrun_run([c for c, _ in sel])
        bad = 0
        for c, g in sel:
            o = res[c.id]
            got = core.obs_core(o)
            total += 1
            if g.startswith("ok|"):
                nontrivial.add(g)
            if not prog.golden_match(got, g):
                if uses_pow(c.src) and approx_match(got, g):
                    approx += 1
                    continue
                bad += 1
                chk.fail(f + "\0" + c.src, got, "%s: tsrun %s, reference %s" % (c.id, got[:150], g[:150]),
                         {"family": f, "id": c.id, "src": c.src, "expected": g}, cluster=cluster_of(f, c.id, got, g))
        perfam[f] = {"cases": len(sel), "disagree": bad}
        samples.append({"family": f, "id": sel[len(sel) // 2][0].id})
    # M-state: reference-defined state graph; every edge replayed on tsrun
    states = transitions = 0
    if not only or "mstate" in only:
        hdr, edges = load_mstate("C01.mstate." + ("thorough" if tier == "thorough" and os.path.exists(prog.golden_path("C01.mstate.thorough")) else "quick"))
        # violating-edge rule: an edge is judged only if its prefix history agreed
        cases = [prog.Case("mstate:" + ",".join(map(str, e["hist"])), gen01.state_program(e["hist"])) for e in edges]
        res = prog.tsrun_run(cases)
        agree = {}
        for e, c in zip(edges, cases):
            o = res[c.id]
            got = o["value"][2:] if o["status"] == "ok" and o["value"].startswith("s:") else core.obs_core(o)
            agree[tuple(e["hist"])] = (any(got == g for g in e["dump"].split(prog.ALT)), got)
        blocked = 0
        bad = 0
        for e, c in zip(edges, cases):
            h = tuple(e["hist"])
            ok, got = agree[h]
            total += 1
            nontrivial.add(e["dump"])
            if ok:
                continue
            pre = h[:-1]
            if pre and pre in agree and not agree[pre][0]:
                blocked += 1
                continue
            bad += 1
            stm = [gen01.STATE_SIGMA[k] for k in h]
            chk.fail("mstate\0" + c.src, got, "mstate after [%s]: tsrun %s, reference %s" % ("; ".join(stm), got[:120], e["dump"][:120]),
                     {"family": "mstate", "id": c.id, "src": c.src, "expected": prog.ALT.join("ok|s:" + d + "||[]" for d in e["dump"].split(prog.ALT)), "history": stm},
                     cluster=cluster_of("mstate", stm[-1], got, e["dump"]))
        states, transitions = hdr["states"], len(edges)
        perfam["mstate"] = {"cases": len(edges), "disagree": bad, "blocked_edges": blocked, "graph_depth": hdr["depth"], "tree_depth": hdr["treedepth"]}
        samples.append({"family": "mstate", "history": [gen01.STATE_SIGMA[k] for k in edges[len(edges) // 2]["hist"]]})
    chk.coverage = {"states": max(states, 1), "transitions": max(transitions, 1), "traces_validated_against_impl": total, "evaluations": total,
                    "distinct_nontrivial": len(nontrivial), "families": perfam, "samples": samples, "matched_within_last_place_of_pow": approx,
                    "rule": "every member of each closed family (operator x operand alphabet, statement skeletons to nesting depth 2-3, scope/pattern/class/generator-operation matrices, built-in x receiver x argument alphabets) plus every edge of the reference-defined M-state graph and its undeduplicated depth-2 tree is executed on tsrun in a fresh interpreter and compared with the reference engine's observation (value via canonical in-program printer, log, error class); non-trivial = distinct successful reference observations; states/transitions are those of the M-state graph"}
    chk.assumptions = ["reference engine node v20 (V8) defines ECMAScript behaviour on the restricted feature set", "observations use an in-program canonical printer validated against node on the value alphabet",
                       "programs using ** or Math.pow (implementation-approximated in ECMA-262) may differ from the reference engine in the last place of a number (relative 2^-51); everything else must be identical",
                       "M-state: extensions of a history that already diverged are blocked, not judged (violating-edge rule)"]
    return chk.finish(exhaustive=True)


def replay(path):
    rp = json.load(open(path))
    c = prog.Case(rp.get("id", "replay"), rp["src"])
    r1 = core.obs_core(prog.tsrun_run([c])[c.id])
    r2 = core.obs_core(prog.tsrun_run([c])[c.id])
    if r1 != r2:
        sys.stderr.write("MACHINERY ERROR: nondeterministic replay\n")
        return 2
    print("tsrun:    " + r1[:300])
    print("expected: " + rp["expected"][:300])
    if not prog.golden_match(r1, rp["expected"]) and not (uses_pow(rp["src"]) and approx_match(r1, rp["expected"])):
        print("VIOLATION property=C01 replay=%s" % path)
        return 1
    return 0
