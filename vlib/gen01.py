"""C01 program families. Every family is a closed alphabet enumerated completely up to a bound.
Each generator returns a list of prog.Case (id, src, quick). Enumeration order is deterministic."""
import itertools
from .prog import Case, wrap_fn, wrap_expr, wrap_top, PRINTER

VALS = ['0', '1', '-1', '1.5', 'NaN', '(-0)', 'Infinity', '-Infinity', '2147483648', '4294967297', '""', '"a"', '"b"', '"5"', '"10"', '" 7 "',
        'true', 'false', 'null', 'undefined', '[]', '[1]', '[1,2]', '({})', '({a:1})', '({valueOf(){return 3}})', '({toString(){return "x"}})']
BINOPS = ['+', '-', '*', '/', '%', '**', '==', '!=', '===', '!==', '<', '<=', '>', '>=', '&', '|', '^', '<<', '>>', '>>>', '&&', '||', '??', ',']
UNOPS = ['-', '+', '!', '~', 'typeof ', 'void ']
ASGOPS = ['+=', '-=', '*=', '/=', '%=', '**=', '<<=', '>>=', '>>>=', '&=', '|=', '^=', '&&=', '||=', '??=']


def fam_expr():
    out = []
    for a, op, b in itertools.product(VALS, BINOPS, VALS):
        out.append(Case("expr:bin:%s %s %s" % (a, op, b), wrap_expr("var a=%s, b=%s;" % (a, b), "a %s b" % op)))
    for op in UNOPS:
        for a in VALS:
            out.append(Case("expr:un:%s%s" % (op, a), wrap_expr("var a=%s;" % a, "%sa" % op)))
    for a in VALS:
        for up in ['a++', '++a', 'a--', '--a']:
            out.append(Case("expr:upd:%s:%s" % (up, a), wrap_expr("var a=%s; var r=%s;" % (a, up), "[r,a]")))
        for op in ASGOPS:
            for b in ['2', '"3"', 'null', '[4]']:
                out.append(Case("expr:asg:%s %s %s" % (a, op, b), wrap_expr("var a=%s; var r=(a %s %s);" % (a, op, b), "[r,a]")))
    return out


# depth-2 expressions over a reduced alphabet, both nestings (thorough only)
V2 = ['0', '1', '-1', '1.5', 'NaN', '2147483648', '"a"', '"5"', 'true', 'null', 'undefined', '[1]', '({})']
O2 = ['+', '-', '*', '/', '%', '**', '==', '===', '<', '>=', '&', '|', '<<', '>>>', '&&', '||', '??']


def fam_expr2():
    out = []
    for o1, o2 in itertools.product(O2, O2):
        for a, b, c in itertools.product(V2, V2, V2):
            if o1 == '**' and (a, b) == ('2147483648', '1.5'):
                # the one inexact power of the alphabet whose last-place difference between libm and V8
                # (implementation-approximated, see c01.approx_match) is amplified by the outer operator
                continue
            out.append(Case("expr2:L:(%s %s %s) %s %s" % (a, o1, b, o2, c), wrap_expr("var a=%s,b=%s,c=%s;" % (a, b, c), "[(a %s b) %s c, a %s (b %s c)]" % (o1, o2, o1, o2)), quick=False))
    return out


FORMS = [
    "a ? b : c", "a ? b ? 1 : 2 : c", "typeof a + typeof b", "a in {a:1,1:2}", "'a' in c", "0 in c", "a instanceof Object", "c instanceof Array",
    "a?.b", "a?.[b]", "a?.b?.c", "c?.length", "c?.[0]?.x", "a?.()", "(function(){ try { return a?.b.c.d; } catch(e) { return 'E'; } })()",
    "`${a}|${b}`", "`x${a}y${b}z${c}`", "`${a}`.length", "String(a)+String(b)", "[a,b,c].join()", "[a,b].toString()", "a+''+b",
    "(a,b)", "(a=b)", "(function(){ var x=a; x ||= b; return x; })()", "(function(){ var x=a; x &&= b; return x; })()", "(function(){ var x=a; x ??= b; return x; })()",
    "!a === !b", "!!a", "-a + +b", "a == b ? 'eq' : a < b ? 'lt' : a > b ? 'gt' : 'nc'", "[a<b,a<=b,a>b,a>=b,a==b,a===b]", "[a&&b,a||b,a??b]",
    "Object.is(a,b)", "[a].indexOf(b)", "[a].includes(b)", "[a,b].sort()", "Number(a)+Number(b)", "parseInt(a)+'|'+parseFloat(b)", "isNaN(a)+'|'+isFinite(b)",
    "delete c[0]", "(function(){ var o={x:a}; var r=delete o.x; return [r,o]; })()", "void a", "typeof undeclared_xyz", "(function(){ return typeof a === 'object' ? Object.keys(a||{}) : a; })()",
    "(function(){ switch(a){ case b: return 'b'; case 1: return 'one'; case '1': return 'sone'; case null: return 'null'; default: return 'd'; } })()",
    "[...String(a)].length", "Math.max(a,b)", "Math.min(a,b)", "[a,b].map(Number)", "[a,b].map(String)", "[a,b].map(Boolean)", "JSON.stringify([a,b])",
    "a + b * c", "a - b - c", "a ** b ** 2", "(a + b) + c === a + (b + c)", "a < b < c", "a == b == c", "a & b | c", "a | b & c", "a << b >> c", "a || b && c", "a ?? (b || c)",
]
FVALS = ['0', '1', '-1', 'NaN', '"a"', '"1"', '""', 'true', 'null', 'undefined', '[]', '[1,2]', '({})', '({b:{c:2}})']


def fam_forms():
    out = []
    for fi, f in enumerate(FORMS):
        for a, b in itertools.product(FVALS, FVALS):
            for c in ['[1,2]', '({a:1})']:
                out.append(Case("forms:%d:%s:%s:%s" % (fi, a, b, c), wrap_expr("var a=%s,b=%s,c=%s;" % (a, b, c), f), quick=(c == '[1,2]')))
    return out


# ------------------------------------------------------------------ M-flow
def _leaves(ctx):
    out = ['fall', 'return', 'throw']
    if ctx['brk']:
        out.append('break')
    if ctx['loop']:
        out.append('continue')
    if ctx['labels']:
        out.append('lbreak')
    if ctx['looplabels']:
        out.append('lcontinue')
    return out


CONS = ['block', 'if', 'for', 'while', 'dowhile', 'forof', 'forin', 'switch', 'label', 'trycatch', 'tryfinally', 'trycatchfinally', 'call', 'gen']


def _gen(depth, ctx, lvl):
    if depth == 0:
        for lf in _leaves(ctx):
            if lf == 'fall':
                yield "L('f%d');" % lvl
            elif lf == 'return':
                yield "L('r%d'); return 'R%d';" % (lvl, lvl)
            elif lf == 'throw':
                yield "L('t%d'); throw 'T%d';" % (lvl, lvl)
            elif lf == 'break':
                yield "L('b%d'); break;" % lvl
            elif lf == 'continue':
                yield "L('c%d'); continue;" % lvl
            elif lf == 'lbreak':
                yield "L('lb%d'); break %s;" % (lvl, ctx['labels'][0])
            elif lf == 'lcontinue':
                yield "L('lc%d'); continue %s;" % (lvl, ctx['looplabels'][0])
        return
    for c in CONS:
        v = "x%d" % lvl
        sh = "let s='%d'; L('s'+s);" % lvl
        if c == 'block':
            for b in _gen(depth - 1, ctx, lvl + 1):
                yield "{ %s %s L('e%d'+s); }" % (sh, b, lvl)
        elif c == 'if':
            for b in _gen(depth - 1, ctx, lvl + 1):
                yield "if (L('i%d')) { %s %s } else { L('el%d'); }" % (lvl, sh, b, lvl)
        elif c in ('for', 'while', 'dowhile', 'forof', 'forin'):
            c2 = dict(ctx, loop=True, brk=True)
            for b in _gen(depth - 1, c2, lvl + 1):
                if c == 'for':
                    yield "for (let %s=0; %s<2; %s++) { %s L('it%d_'+%s); %s L('ie%d'); }" % (v, v, v, sh, lvl, v, b, lvl)
                if c == 'while':
                    yield "let %s=0; while (%s<2) { %s++; %s L('it%d_'+%s); %s L('ie%d'); }" % (v, v, v, sh, lvl, v, b, lvl)
                if c == 'dowhile':
                    yield "let %s=0; do { %s++; %s L('it%d_'+%s); %s L('ie%d'); } while (%s<2);" % (v, v, sh, lvl, v, b, lvl, v)
                if c == 'forof':
                    yield "for (const %s of [1,2]) { %s L('it%d_'+%s); %s L('ie%d'); }" % (v, sh, lvl, v, b, lvl)
                if c == 'forin':
                    yield "for (const %s in {p:1,q:2}) { %s L('it%d_'+%s); %s L('ie%d'); }" % (v, sh, lvl, v, b, lvl)
        elif c == 'switch':
            c2 = dict(ctx, brk=True)
            for b in _gen(depth - 1, c2, lvl + 1):
                yield "switch (1) { case 0: L('c0'); case 1: %s %s case 2: L('c2_%d'); break; default: L('d%d'); }" % (sh, b, lvl, lvl)
        elif c == 'label':
            lab = "lab%d" % lvl
            c2 = dict(ctx, labels=[lab] + ctx['labels'])
            for b in _gen(depth - 1, c2, lvl + 1):
                yield "%s: { %s %s L('le%d'); }" % (lab, sh, b, lvl)
            c3 = dict(ctx, labels=[lab] + ctx['labels'], looplabels=[lab] + ctx['looplabels'], loop=True, brk=True)
            for b in _gen(depth - 1, c3, lvl + 1):
                yield "%s: for (let %s=0; %s<2; %s++) { %s L('lit%d_'+%s); %s L('lie%d'); }" % (lab, v, v, v, sh, lvl, v, b, lvl)
        elif c == 'trycatch':
            for b in _gen(depth - 1, ctx, lvl + 1):
                yield "try { %s %s L('te%d'); } catch (e) { L('ca%d:'+e); }" % (sh, b, lvl, lvl)
                yield "try { L('tt%d'); throw 'X%d'; } catch (e) { %s L('ca%d:'+e); %s }" % (lvl, lvl, sh, lvl, b)
        elif c == 'tryfinally':
            for b in _gen(depth - 1, ctx, lvl + 1):
                yield "try { %s %s L('te%d'); } finally { L('fi%d'); }" % (sh, b, lvl, lvl)
                yield "try { L('tt%d'); } finally { %s L('fi%d'); %s }" % (lvl, sh, lvl, b)
        elif c == 'trycatchfinally':
            for b in _gen(depth - 1, ctx, lvl + 1):
                yield "try { %s %s L('te%d'); } catch (e) { L('ca%d:'+e); } finally { L('fi%d'); }" % (sh, b, lvl, lvl, lvl)
                yield "try { throw 'X%d'; } catch (e) { %s L('ca%d:'+e); %s } finally { L('fi%d'); }" % (lvl, sh, lvl, b, lvl)
        elif c == 'call':
            c2 = dict(loop=False, brk=False, labels=[], looplabels=[])
            for b in _gen(depth - 1, c2, lvl + 1):
                yield "L('call%d:'+(function g%d(){ %s %s L('ge%d'); return 'G%d'; })());" % (lvl, lvl, sh, b, lvl, lvl)
        elif c == 'gen':
            c2 = dict(loop=False, brk=False, labels=[], looplabels=[])
            for b in _gen(depth - 1, c2, lvl + 1):
                yield "for (const y%d of (function* g%d(){ %s yield 1; %s L('ge%d'); yield 2; })()) { L('y%d_'+y%d); }" % (lvl, lvl, sh, b, lvl, lvl, lvl)


FLOW_PRE = "var LOG=[]; function L(x){ LOG.push(x); return true; } let s='top';\n"


def fam_flow(depth, quick=True):
    out = []
    ctx0 = dict(loop=False, brk=False, labels=[], looplabels=[])
    for n, body in enumerate(_gen(depth, ctx0, 0)):
        src = PRINTER + "\n" + FLOW_PRE + "function f(){ %s L('end'); return 'END'; }\nvar r; try { r='ret:'+f(); } catch(e) { r='thr:'+(e instanceof Error ? e.name : e); }\nLOG.join(',')+'|'+r+'|'+s" % body
        out.append(Case("flow%d:%d" % (depth, n), src, quick=quick))
    return out


# ------------------------------------------------------------------ M-scope (TDZ / hoisting matrix)
def fam_scope():
    out = []
    decls = {
        'var': "var x = 1;", 'let': "let x = 1;", 'const': "const x = 1;", 'function': "function x(){ return 1; }", 'class': "class x { static v(){ return 1; } }",
    }
    uses = {
        'before': "L(typeof x); try { L(x === undefined ? 'undef' : typeof x); } catch(e) { L(e.name); } %s L(typeof x);",
        'after': "%s L(typeof x);",
        'inner-before': "{ try { L(typeof x === 'undefined' ? 'u' : typeof x); L(x === undefined ? 'undef' : typeof x); } catch(e) { L(e.name); } %s L(typeof x); } try { L(typeof x); } catch(e) { L(e.name); }",
        'closure-before': "function peek(){ try { return typeof x + ':' + (x === undefined); } catch(e) { return e.name; } } L(peek()); %s L(peek());",
        'shadow': "var outer = 'o'; { %s L(typeof x); { let x = 's'; L(x); } L(typeof x); } try { L(typeof x); } catch(e) { L(e.name); }",
        'after-return': "L(typeof x); return LOG.join(','); %s",
        'in-if': "if (true) { %s } try { L(typeof x); } catch(e) { L(e.name); }",
        'in-loop-closure': "var fs=[]; for (var i=0;i<2;i++) { %s fs.push(function(){ return typeof x; }); } L(fs.map(function(f){return f();}).join());",
        'redeclare-inner': "%s { var y = typeof x; L(y); } L(typeof y);",
        'assign-before': "try { x = 5; L('assigned'); } catch(e) { L(e.name); } %s try { L(typeof x === 'function' || typeof x === 'number' ? typeof x : String(x)); } catch(e) { L(e.name); }",
    }
    for dk, d in decls.items():
        for uk, u in uses.items():
            body = "var LOG=[]; function L(v){ LOG.push(v); }\n" + (u % d) + "\nreturn LOG.join(',');"
            out.append(Case("scope:fn:%s:%s" % (dk, uk), wrap_fn(body)))
    # closures capturing loop variables
    for kind in ['let', 'var', 'const-of', 'let-of', 'var-of', 'let-in']:
        hdr = {'let': "for (let i=0;i<3;i++)", 'var': "for (var i=0;i<3;i++)", 'const-of': "for (const i of [0,1,2])", 'let-of': "for (let i of [0,1,2])",
               'var-of': "for (var i of [0,1,2])", 'let-in': "for (let i in {a:1,b:2,c:3})"}[kind]
        for bodyk, b in {'plain': "fs.push(function(){ return i; });", 'inner-let': "let j=i+'j'; fs.push(function(){ return i+':'+j; });",
                         'mutate': "fs.push(function(){ return i; }); if (typeof i==='number' && i===1) { try { i++; } catch(e) { fs.push(function(){return e.name;}); } }",
                         'continue': "if (i==1) continue; fs.push(function(){ return i; });", 'break': "fs.push(function(){ return i; }); if (i==1) break;"}.items():
            body = "var fs=[]; %s { %s } return fs.map(function(f){ return f(); }).join();" % (hdr, b)
            out.append(Case("scope:loop:%s:%s" % (kind, bodyk), wrap_fn(body)))
    # parameters, defaults, arguments, this
    params = [("(a,b)", "[a,b]"), ("(a,b=a)", "[a,b]"), ("(a=b,b=1)", "[a,b]"), ("(a,...r)", "[a,r]"), ("(a,b)", "[arguments.length,arguments[1]]"), ("({x,y=2},[z]=[3])", "[x,y,z]"),
              ("(a=(function(){return typeof b})(),b=2)", "[a,b]"), ("(a,a2=function(){return a})", "[a2(),(a=9,a2())]"), ("(x=1)", "(function(){var x; return x})()"), ("(a,b)", "(function(){ return arguments.length })()")]
    argsets = ["()", "(1)", "(1,2)", "(1,2,3)", "(undefined,5)", "({x:1},[7])", "(null)"]
    for (p, r), a in itertools.product(params, argsets):
        for form in ['decl', 'expr', 'arrow', 'method']:
            if form == 'arrow' and 'arguments' in r and 'function' not in r:
                continue
            if form == 'decl':
                body = "function f%s { return %s; } return f%s;" % (p, r, a)
            elif form == 'expr':
                body = "var f = function%s { return %s; }; return f%s;" % (p, r, a)
            elif form == 'arrow':
                body = "var f = %s => %s; return f%s;" % (p, "(" + r + ")", a)
            else:
                body = "var o = { f%s { return %s; } }; return o.f%s;" % (p, r, a)
            out.append(Case("scope:param:%s:%s:%s:%s" % (form, p, r, a), wrap_fn(body)))
    return out


# ------------------------------------------------------------------ M-pattern
def fam_pattern():
    out = []
    pats = ["[a,b]", "[a,,b]", "[a=1,b=2]", "[a,...b]", "[[a],[b]]", "[a,[b=5]=[]]", "{a,b}", "{a:b}", "{a=1,b=2}", "{a:{b}}", "{a,...b}", "{['a']:b}", "{a:[b]}", "[{a},{b}]", "{0:a,1:b}", "{length:a,0:b}", "[a=b,b=a]", "{a:a,b:a}"]
    srcs = ["[1,2,3]", "[]", "[undefined,null]", "[[1],[2]]", "'xy'", "({a:1,b:2,c:3})", "({a:{b:7}})", "({a:[8,9]})", "[{a:1},{b:2}]", "({})", "null", "undefined", "5", "[,1]", "(function*(){ yield 1; yield 2; yield 3; })()",
            "({get a(){ return 'g'; }, b:1})", "Object.create({a:'inh',b:'inh2'})", "new Map([[1,2]])", "new Set([4,5])"]
    for p, s in itertools.product(pats, srcs):
        out.append(Case("pat:let:%s=%s" % (p, s), wrap_fn("let %s = %s; return [typeof a==='undefined'?'U':a, typeof b==='undefined'?'U':b];" % (p, s))))
        out.append(Case("pat:asg:%s=%s" % (p, s), wrap_fn("var a='A',b='B'; var r=(%s = %s); return [a,b,typeof r];" % ("(" + p if p.startswith('{') else p, s + ")" if p.startswith('{') else s)), quick=False))
        out.append(Case("pat:param:%s=%s" % (p, s), wrap_fn("function f(%s){ return [typeof a==='undefined'?'U':a, typeof b==='undefined'?'U':b]; } return f(%s);" % (p, s))))
        out.append(Case("pat:forof:%s=%s" % (p, s), wrap_fn("var o=[]; for (const %s of [%s]) { o.push(typeof a==='undefined'?'U':a, typeof b==='undefined'?'U':b); } return o;" % (p, s)), quick=False))
    out.append(Case("pat:catch", wrap_fn("try { throw {a:1,b:[2]}; } catch ({a,b:[c]}) { return [a,c]; }")))
    out.append(Case("pat:swap", wrap_fn("var a=1,b=2; [a,b]=[b,a]; return [a,b];")))
    out.append(Case("pat:order", wrap_fn("var log=[]; var o={get x(){log.push('x');return 1}, get y(){log.push('y');return 2}}; var {y,x}=o; return log;")))
    out.append(Case("pat:iter-close", wrap_fn("var log=[]; var it={[Symbol.iterator](){ return { next(){ log.push('n'); return {value:1,done:false}; }, return(){ log.push('ret'); return {}; } }; }}; var [a]=it; return log;")))
    return out


# ------------------------------------------------------------------ M-class
def fam_class():
    out = []
    feats = {
        'field': ("x = 1;", "new C().x"), 'field-this': ("x = 1; y = this.x + 1;", "new C().y"), 'static-field': ("static s = 2;", "C.s"),
        'method': ("m(){ return 'm'; }", "new C().m()"), 'static-method': ("static sm(){ return 'sm'; }", "C.sm()"),
        'getter': ("get g(){ return 'g'; }", "new C().g"), 'setter': ("set v(x){ this._v = x*2; }", "(function(){ var c=new C(); c.v=4; return c._v; })()"),
        'private': ("#p = 3; gp(){ return this.#p; }", "new C().gp()"), 'private-method': ("#pm(){ return 'pm'; } cpm(){ return this.#pm(); }", "new C().cpm()"),
        'static-block': ("static q; static { C.q = 'sb'; }", "C.q"), 'ctor': ("constructor(){ this.c = 'ctor'; }", "new C().c"),
        'computed': ("['k'+1](){ return 'k1'; }", "new C().k1()"), 'tostring': ("toString(){ return 'TS'; }", "''+new C()"), 'valueof': ("valueOf(){ return 41; }", "new C()+1"),
        'generator-method': ("*gm(){ yield 1; yield 2; }", "[...new C().gm()]"), 'async-method-type': ("async am(){ return 1; }", "typeof new C().am().then"),
        'symbol-iter': ("*[Symbol.iterator](){ yield 'a'; yield 'b'; }", "[...new C()]"), 'static-private': ("static #sp = 9; static gsp(){ return C.#sp; }", "C.gsp()"),
        'new-target': ("constructor(){ this.nt = new.target === C; }", "new C().nt"), 'arrow-this': ("f = () => this; ", "(function(){ var c=new C(); return c.f() === c; })()"),
        'in-private': ("#b = 1; static has(o){ return #b in o; }", "[C.has(new C()), C.has({})]"),
        'computed-field': ("['cf' + 1] = 'cf1';", "[new C().cf1, Object.keys(new C())]"), 'computed-static-field': ("static ['sf' + 2] = 'sf2';", "[C.sf2, Object.keys(C)]"),
        'numeric-field': ("7 = 'seven'; static 1.5 = 'h';", "[new C()[7], C['1.5']]"), 'symbol-field': ("[Symbol.for('fs')] = 's';", "[new C()[Symbol.for('fs')], Object.keys(new C()).length]"),
        'computed-field-once': ("[(C_n = (typeof C_n == 'number' ? C_n : 0) + 1, 'n' + C_n)] = 1;", "[Object.keys(new C()), Object.keys(new C()), C_n]"),
        'computed-accessor': ("get ['ga' + 1](){ return 'ga'; } static set ['sa'](v){ C.sav = v; }", "(function(){ C.sa = 3; return [new C().ga1, C.sav]; })()"),
    }
    keys = list(feats)
    for k in keys:
        out.append(Case("class:1:%s" % k, wrap_fn("var C_n; class C { %s } return %s;" % feats[k])))
    for a, b in itertools.combinations(keys, 2):
        if feats[a][0].startswith('constructor') and feats[b][0].startswith('constructor'):
            continue
        out.append(Case("class:2:%s+%s" % (a, b), wrap_fn("var C_n; class C { %s %s } return [%s, %s];" % (feats[a][0], feats[b][0], feats[a][1], feats[b][1])), quick=True))
    # inheritance matrix
    bases = {'class': "class B { constructor(x){ this.bx = x; } bm(){ return 'bm'; } static bs(){ return 'bs'; } get bg(){ return 'bg'; } }",
             'function': "function B(x){ this.bx = x; } B.prototype.bm = function(){ return 'bm'; }; B.bs = function(){ return 'bs'; };",
             'class-fields': "class B { f = 'bf'; constructor(x){ this.bx = x; this.init(); } init(){ this.i = 'bi'; } bm(){ return 'bm'; } static bs(){ return 'bs'; } }"}
    derived = {
        'implicit-ctor': ("", "[d.bx, d.bm()]"), 'super-call': ("constructor(){ super(5); this.dx = 1; }", "[d.bx, d.dx]"),
        'super-method': ("bm(){ return 'd' + super.bm(); }", "d.bm()"), 'super-static': ("static bs(){ return 'd' + super.bs(); }", "D.bs()"),
        'override-init': ("g = 'dg'; init(){ this.i = 'di:' + this.g; }", "[d.i, d.g]"), 'instanceof': ("", "[d instanceof D, d instanceof B, Object.getPrototypeOf(D) === B]"),
        'this-before-super': ("constructor(){ try { this.x = 1; } catch(e) { super(e.name); return; } super('no'); }", "d.bx"),
        'return-object': ("constructor(){ super(1); return {other:true}; }", "[d.other, d instanceof D]"), 'field-after-super': ("f2 = this.bx + 1; constructor(){ super(10); }", "d.f2"),
        'super-prop-assign': ("setp(){ super.zz = 3; return this.zz; }", "d.setp()"), 'name': ("", "[D.name, B.name, d.constructor.name]"), 'tostring-tag': ("get [Symbol.toStringTag](){ return 'TT'; }", "Object.prototype.toString.call(d)"),
    }
    for bk, b in bases.items():
        for dk, (dbody, obs) in derived.items():
            out.append(Case("class:ext:%s:%s" % (bk, dk), wrap_fn("%s class D extends B { %s } var d = new D(7); return %s;" % (b, dbody, obs))))
    out.append(Case("class:ext-null", wrap_fn("class N extends null { static s(){ return 1; } } return [N.s(), Object.getPrototypeOf(N.prototype)];")))
    out.append(Case("class:call-without-new", wrap_fn("class C {} try { C(); return 'no'; } catch(e) { return e.name; }")))
    out.append(Case("class:tdz", wrap_fn("try { new C(); } catch(e) { return e.name; } class C {}")))
    out.append(Case("class:expr-name", wrap_fn("var K = class Inner { who(){ return Inner.name; } }; return [K.name, new K().who(), typeof Inner];")))
    out.append(Case("class:accessor-pair", wrap_fn("class C { #v=1; get v(){ return this.#v; } set v(x){ this.#v = x; } } var c=new C(); c.v=5; return [c.v, Object.keys(c)];")))
    out.append(Case("class:method-enum", wrap_fn("class C { m(){} static s(){} x=1 } var c=new C(); var ks=[]; for (var k in c) ks.push(k); return [ks, Object.keys(C), Object.getOwnPropertyNames(C.prototype)];")))
    return out


# ------------------------------------------------------------------ M-gen (operation sequences on generators)
GEN_BODIES = [
    "yield 1; yield 2; return 3;", "var x = yield 1; L('x='+x); var y = yield x; L('y='+y); return y;", "try { yield 1; yield 2; } finally { L('fin'); }",
    "try { yield 1; } catch (e) { L('c:'+e); yield 'caught'; } yield 'after';", "try { yield 1; } finally { yield 'f'; L('f2'); }", "yield* [10,20]; return 'd';",
    "yield* inner(); return 'outer';", "for (var i=0;i<3;i++) { try { yield i; } finally { L('lf'+i); } }", "var r = yield* inner(); L('r='+r); yield r;", "return 'early'; yield 1;",
    "try { yield 1; } finally { return 'fr'; }", "while (true) { var c = yield; if (c === 'stop') return 'stopped'; L('got:'+c); }",
]
GEN_OPS = ["next()", "next('v')", "return('R')", "throw('T')"]


def fam_gen(maxlen=3):
    out = []
    for bi, body in enumerate(GEN_BODIES):
        for n in range(1, maxlen + 1):
            for seq in itertools.product(range(len(GEN_OPS)), repeat=n):
                calls = "".join("try { r = g.%s; o.push(r.value, r.done); } catch (e) { o.push('thr:'+(e instanceof Error ? e.name : e)); }\n" % GEN_OPS[k] for k in seq)
                src = wrap_fn("var LOG=[]; function L(v){ LOG.push(v); }\nfunction* inner(){ try { var a = yield 'i1'; L('ia='+a); yield 'i2'; return 'ir'; } finally { L('ifin'); } }\n"
                              "function* G(){ %s }\nvar g = G(); var o = []; var r;\n%sreturn [o, LOG];" % (body, calls))
                out.append(Case("gen:%d:%s" % (bi, "".join(map(str, seq))), src, quick=(n <= 3)))
    return out


# ------------------------------------------------------------------ M-state alphabet (graph built by the golden tool, replayed here)
STATE_INIT = "var a=[1,2,3], b={x:1}, c=0;"
STATE_SIGMA = [
    "a.push(c)", "a.pop()", "c=a.shift()", "a.unshift(b)", "a.length=1", "a[a.length]=c", "a.reverse()", "a.sort()", "c=a.splice(1,1)", "a=a.concat(a)", "a[0]=undefined", "a.fill(c,1)",
    "b.y=a", "b[0]=c", "delete b.x", "b.x=b", "Object.freeze(b)", "b={...b,z:c}", "c=Object.keys(b).length", "b['01']=1", "b[1]=2", "c=JSON.stringify(a)===undefined?0:JSON.stringify(a).length",
    "c=c+1", "c=a.length", "c=-c", "c=a.indexOf(c)", "[a,b]=[b,a]", "c=typeof a", "a=[...Object.keys(b)]", "c=a.join('-')",
    "a=a.map(function(v){return v})", "a=a.filter(function(v,i){return i%2==0})", "c=a.slice(-2)", "a.copyWithin(0,1)", "b=Object.assign({},b,{w:c})", "c=Object.entries(b).length", "Object.defineProperty(b,'h',{value:c,enumerable:false})",
    "c=('x' in b)", "a=Array.from(a.keys())", "c=b.hasOwnProperty('x')", "b=JSON.parse(JSON.stringify(b,function(k,v){return v===b&&k!==''?undefined:v}))", "a.length=a.length-1",
    "c=new Map([[a,1],[b,2]]).size", "var t=new Set(a); a=[...t]", "c=a.includes(c)", "a.splice(1,0,c,c)", "c=a.flat().length", "b.x=undefined", "c=Object.values(b).length", "Object.seal(a)",
]


def state_program(hist):
    """One replay program for a history over STATE_SIGMA: each statement in its own try (errors set c)."""
    parts = [PRINTER, STATE_INIT]
    for s in hist:
        parts.append("try { %s; } catch (e) { c = 'ERR:' + (e && e.name); }" % STATE_SIGMA[s])
    parts.append("__s([a,b,c,Object.isFrozen(b),Object.isSealed(a)])")
    return "\n".join(parts)


# ------------------------------------------------------------------ M-lib: built-ins x receiver x argument alphabets
NUMS = ['0', '1', '-1', '2', '1.5', '-1.5', 'NaN', '-0', 'Infinity', '-Infinity', '100', '-100', '3', 'undefined']
LIB = {
    # receiver expression list, method templates with {a} {b} argument slots
    'array': (['[1,2,3,4,5]', '[]', '[3,1,2]', '["b","a","c"]', '[[1,2],[3,[4]]]', '[NaN,0,-0,undefined,null]', '[{k:1},{k:2}]'],
              ['slice({a})', 'slice({a},{b})', 'splice({a})', 'splice({a},{b})', 'splice({a},{b},"x")', 'at({a})', 'indexOf({a})', 'indexOf(3,{a})', 'lastIndexOf({a})', 'lastIndexOf(3,{a})', 'includes({a})', 'includes(NaN,{a})',
               'fill(9,{a})', 'fill(9,{a},{b})', 'copyWithin({a},{b})', 'copyWithin(0,{a},{b})', 'flat({a})', 'join({a})', 'concat({a})', 'concat([{a}],{b})', 'with({a},9)', 'toSpliced({a},{b})', 'toSorted()', 'toReversed()',
               'reverse()', 'sort()', 'sort(function(x,y){{return y-x}})', 'push({a})', 'pop()', 'shift()', 'unshift({a},{b})', 'keys().next().value', 'entries().next().value', 'findLast(function(x){{return x>{a}}})',
               'find(function(x){{return x>{a}}})', 'findIndex(function(x){{return x==={a}}})', 'findLastIndex(function(x){{return x==={a}}})', 'some(function(x){{return x>{a}}})', 'every(function(x){{return x>{a}}})',
               'map(function(x,i){{return i+{a}}})', 'filter(function(x){{return x!=={a}}})', 'reduce(function(p,x){{return p+x}})', 'reduce(function(p,x){{return p+x}},{a})', 'reduceRight(function(p,x){{return p+"|"+x}})',
               'flatMap(function(x){{return [x,{a}]}})', 'forEach(function(){{}})', 'length', 'toString()', 'map(String)', 'length={a}']),
        'string': (['"hello world"', '""', '"abcabc"', '"  pad  "', '"a,b,,c"', '"\\u00e9t\\u00e9"', '"x\\ud83d\\ude00y"', '"AbC"'],
                   ['charAt({a})', 'charCodeAt({a})', 'codePointAt({a})', 'at({a})', 'slice({a})', 'slice({a},{b})', 'substring({a})', 'substring({a},{b})', 'substr({a},{b})', 'indexOf("b",{a})', 'lastIndexOf("b",{a})', 'includes("c",{a})',
                    'startsWith("a",{a})', 'endsWith("c",{a})', 'padStart({a},"*")', 'padEnd({a},"ab")', 'repeat({a})', 'split(",",{a})', 'split("")', 'split("",{a})', 'trim()', 'trimStart()', 'trimEnd()', 'toUpperCase()', 'toLowerCase()',
                    'concat({a},{b})', 'replace("b","[$&]")', 'replaceAll("b","$$")', 'replace(/b/g,function(m,i){{return i}})', 'match(/b/g)', 'search(/c/)', 'normalize()', 'length', '[{a}]', 'split(/,/)', 'matchAll(/b/g).next().value',
                    'replace("a","$`|$\'")', 'at()', 'isWellFormed && true']),
        'number': (['0', '1', '-1.5', '255', '1e21', '1e-7', '123.456', 'NaN', 'Infinity', '0.000001', '1.005', '-0'],
                   ['toFixed({a})', 'toPrecision({a})', 'toExponential({a})', 'toString()', 'valueOf()']),
        'number-radix': (['0', '1', '-1', '255', '-255', '4294967295', '9007199254740991', '1e21', 'NaN', 'Infinity', '-0', '35', '36'], ['toString({r})']),
        'math': (['Math'], ['abs({a})', 'floor({a})', 'ceil({a})', 'round({a})', 'trunc({a})', 'sign({a})', 'sqrt({a})', 'min({a},{b})', 'max({a},{b})', 'pow({a},{b})', 'fround({a})', 'imul({a},{b})', 'clz32({a})', 'min()', 'max()']),
        'object': (['Object'], ['keys({o})', 'values({o})', 'entries({o})', 'assign({{}},{o})', 'fromEntries(Object.entries({o}))', 'getOwnPropertyNames({o})', 'isFrozen({o})', 'isFrozen(Object.freeze({o}))', 'getPrototypeOf({o})===Object.prototype', 'create({o}).a',
                                'getOwnPropertyDescriptor({o},"a")', 'getOwnPropertyDescriptors({o})', 'entries({o}).length', 'hasOwn({o},"a")', 'is({o},{o})', 'defineProperty({o},"z",{{get(){{return 1}},enumerable:true}})']),
        'json': (['JSON'], ['stringify({o})', 'stringify({o},null,2)', 'stringify({o},null,"\\t")', 'stringify({o},["a"])', 'stringify({o},function(k,v){{return typeof v==="number"?v+1:v}})', 'parse(JSON.stringify({o}))', 'stringify({a})', 'parse(String({a}))']),
        'global': ([''], ['parseInt({s})', 'parseInt({s},{a})', 'parseFloat({s})', 'Number({s})', 'String({a})', 'Boolean({a})', 'isNaN({s})', 'isFinite({s})', 'Number.isInteger({a})', 'Number.isSafeInteger({a})', 'Number.parseFloat({s})', 'encodeURIComponent({s})', 'decodeURIComponent(encodeURIComponent({s}))', 'Array.isArray({o})', 'Array.of({a},{b})', 'Array.from({s})', 'Array.from({{length:{a}}})', 'Array({a})', 'new Array({a},{b})', 'Symbol.for("k")===Symbol.for("k")', 'String.fromCharCode({a})', 'String.fromCodePoint(Math.abs(Math.floor({a}))||0)']),
}
RADIX = ['2', '8', '10', '16', '36', '1', '37', 'undefined', '3.9', 'NaN']
OBJS = ['{}', '{a:1}', '{a:1,b:{c:2}}', '[1,2]', '{b:2,a:1,1:"x",0:"y"}', '"str"', '{a:undefined,f:function(){},n:null}', 'null', '{get a(){return 7}}', '[]', '{a:[1,{b:2}],d:new Date(0)}', '{"__proto__x":1,toJSON(){return {t:1}}}']
STRS = ['"12"', '"12px"', '" 12 "', '"0x1f"', '"-0"', '"1e3"', '""', '"abc"', '".5"', '"Infinity"', '"0b11"', '"1_000"', '"12.5.6"', 'null', 'undefined', 'true', '"\\u00e9 x"']


def fam_lib():
    out = []
    for cat, (recvs, meths) in LIB.items():
        for r in recvs:
            for m in meths:
                slots = [s for s in ('{a}', '{b}', '{o}', '{s}', '{r}') if s in m]
                doms = []
                for s in slots:
                    doms.append({'{a}': NUMS, '{b}': NUMS[:8] + ['undefined'], '{o}': OBJS, '{s}': STRS, '{r}': RADIX}[s])
                for combo in itertools.product(*doms) if doms else [()]:
                    call = m
                    vals = dict(zip(slots, combo))
                    call = call.replace('{{', '\x00').replace('}}', '\x01')
                    for s, v in vals.items():
                        if s == '{o}' and v.startswith('{'):
                            v = '(' + v + ')'
                        call = call.replace(s, v)
                    call = call.replace('\x00', '{').replace('\x01', '}')
                    recv = r
                    if cat in ('math', 'object', 'json'):
                        expr = "%s.%s" % (recv, call)
                        body = "return %s;" % expr
                    elif cat == 'global':
                        body = "return %s;" % call
                    elif cat in ('number', 'number-radix'):
                        body = "var r=%s; return (r).%s;" % (recv, call)
                    else:
                        if call.startswith('['):
                            body = "var r=%s; return r%s;" % (recv, call)
                        elif call.startswith('length='):
                            body = "var r=%s; r.%s; return r;" % (recv, call)
                        else:
                            body = "var r=%s; var x=r.%s; return [x, r];" % (recv, call)
                    # quick subset: first argument value of a two-slot call restricted
                    q = len(combo) < 2 or (combo[1] in ('2', 'undefined', '-1'))
                    out.append(Case("lib:%s:%s:%s" % (cat, recv, call), wrap_fn(body), quick=q))
    # Map / Set / Date / RegExp / Symbol operation scripts
    extra = {
        'to-primitive-symbol': "var o={[Symbol.toPrimitive](h){ return h==='number'?7:(h==='string'?'s':'d'); }}; return [+o,`${o}`,o+'',o*2,o<8,[o]+''];",
        'map-basic': "var m=new Map(); m.set('a',1).set(NaN,2).set(0,'z').set(-0,'nz'); var o={}; m.set(o,3); return [m.size,m.get(NaN),m.get(0),m.get(o),m.has({}),[...m.keys()],m.delete('a'),m.size];",
        'map-iter-mutate': "var m=new Map([[1,'a'],[2,'b'],[3,'c']]); var seen=[]; m.forEach(function(v,k){ seen.push(k); if(k===1){ m.delete(2); m.set(4,'d'); } }); return [seen,[...m]];",
        'map-order': "var m=new Map([['b',1],['a',2]]); m.set('b',3); m.delete('a'); m.set('a',4); return [...m.entries()];",
        'set-basic': "var s=new Set([1,1,'1',NaN,NaN,0,-0]); return [s.size,[...s],s.has(-0),s.delete(1),s.delete(1),[...s.values()]];",
        'set-iter-mutate': "var s=new Set([1,2,3]); var seen=[]; for (var v of s){ seen.push(v); if(v===1){ s.delete(2); s.add(9); } } return seen;",
        'set-ops': "var s=new Set([1,2]); s.add(2).add(3); s.clear(); s.add('x'); return [s.size,[...s.entries()]];",
        'weak': "var k={}; var wm=new WeakMap([[k,1]]); var ws=new WeakSet([k]); return [wm.get(k),wm.has({}),ws.has(k)];",
        'date-utc': "var d=new Date(Date.UTC(2020,1,29,12,30,45,123)); return [d.getTime(),d.getUTCFullYear(),d.getUTCMonth(),d.getUTCDate(),d.getUTCDay(),d.getUTCHours(),d.getUTCMinutes(),d.getUTCSeconds(),d.getUTCMilliseconds(),d.toISOString(),d.toJSON()];",
        'date-parse-iso': "return [Date.parse('2020-02-29T12:30:45.123Z'),Date.parse('2020-02-29'),Date.parse('2021-02-30T00:00:00Z')!==Date.parse('x'),new Date('2020-01-01T00:00:00Z').getTime(),new Date(NaN).getTime(),isNaN(new Date('bogus'))];",
        'date-set': "var d=new Date(0); d.setUTCFullYear(2000); d.setUTCMonth(13); d.setUTCDate(0); d.setUTCHours(25); return [d.getTime(),d.toISOString()];",
        'date-overflow': "return [new Date(8.64e15).getTime(),new Date(8.64e15+1).getTime(),Date.UTC(1970,0,1,0,0,0,-1),Date.UTC(99,0),new Date(2020,0).getFullYear()];",
        'regexp-basic': "var r=/(\\d+)-(?<w>[a-z]+)/g; var s='12-ab 34-cd'; var m=r.exec(s); var m2=r.exec(s); return [m[0],m[1],m.groups.w,m.index,r.lastIndex,m2[0],r.exec(s),r.lastIndex];",
        'regexp-flags': "return [/a/i.test('A'),/^b/m.test('a\\nb'),/a.c/s.test('a\\nc'),/a/y.test('ba'),/\\u{1F600}/u.test('\\ud83d\\ude00'),/a/gi.flags,/x/.source,String(/a\\/b/)];",
        'regexp-replace': "return ['aXbXc'.replace(/X/g,'-'),'abc'.replace(/(b)/,'[$1$1]'),'abc'.replace(/b/,'$$'),'a1b2'.replace(/\\d/g,function(d){return d*2}),'x'.replace(/(?<n>x)/,'$<n>$<n>'),'aaa'.replace(/a*?/g,'-')];",
        'regexp-split-match': "return ['a1b22c'.split(/\\d+/),'a1b2'.split(/(\\d)/),'abc'.match(/z/),'abcabc'.match(/b/g),'abc'.match(/(?<x>b)/).groups.x,[...'a1b2'.matchAll(/\\d/g)].map(function(m){return m[0]+m.index})];",
        'regexp-sticky-lastindex': "var r=/a/g; r.lastIndex=5; var t=r.test('aaa'); return [t,r.lastIndex];",
        'symbol': "var s=Symbol('d'); var o={[s]:1,x:2}; return [typeof s,s.description,String(s),Object.keys(o),Object.getOwnPropertySymbols(o).length,Symbol.for('a')===Symbol.for('a'),Symbol.keyFor(Symbol.for('q')),s.toString()];",
        'fn-proto': "function f(a,b){ return [this&&this.t,a,b]; } var o={t:'T'}; var bf=f.bind(o,1); return [f.call(o,1,2),f.apply(o,[3,4]),bf(9),bf.name,f.length,bf.length,f.name,(function(){}).name,(()=>{}).length];",
        'reflect': "var o={a:1}; return [Reflect.has(o,'a'),Reflect.get(o,'a'),Reflect.set(o,'b',2),Reflect.ownKeys(o),Reflect.deleteProperty(o,'a'),Reflect.apply(Math.max,null,[1,3]),Reflect.construct(Array,[3]).length,Reflect.getPrototypeOf([])===Array.prototype];",
        'proxy': "var log=[]; var p=new Proxy({a:1},{get(t,k){ log.push('get:'+String(k)); return k in t?t[k]:'dflt'; }, has(t,k){ log.push('has:'+k); return true; }, set(t,k,v){ log.push('set:'+k); t[k]=v*2; return true; }, deleteProperty(t,k){ log.push('del:'+k); return delete t[k]; }, ownKeys(t){ return ['a','z']; }, getOwnPropertyDescriptor(t,k){ return {value:t[k],enumerable:true,configurable:true}; }}); p.b=2; return [p.a,p.zz,'q' in p,p.b,delete p.a,Object.keys(p),log];",
        'getter-setter': "var o={_v:1,get v(){return this._v},set v(x){this._v=x+1}}; o.v=5; var d=Object.getOwnPropertyDescriptor(o,'v'); return [o.v,typeof d.get,typeof d.set,d.enumerable,JSON.stringify(o)];",
        'define-prop': "var o={}; Object.defineProperty(o,'ro',{value:1,writable:false,enumerable:false,configurable:false}); o.ro=2; var r; try{ 'use strict'; delete o.ro; r='ok'; }catch(e){ r=e.name; } return [o.ro,Object.keys(o),r,Object.getOwnPropertyDescriptor(o,'ro')];",
        'freeze': "var o=Object.freeze({a:1,n:{b:2}}); o.a=9; o.c=1; delete o.a; o.n.b=3; return [o,Object.isFrozen(o),Object.isFrozen(o.n),Object.isSealed(o),Object.isExtensible(o)];",
        'proto-chain': "var base={a:1,shared:[1]}; var d=Object.create(base); d.b=2; var ks=[]; for (var k in d) ks.push(k); return [d.a,'a' in d,d.hasOwnProperty('a'),ks,Object.keys(d),JSON.stringify(d),Object.getPrototypeOf(d)===base];",
        'arguments-obj': "function f(a){ arguments[0]=9; return [a,arguments.length,typeof arguments,Array.prototype.slice.call(arguments)]; } return f(1,2);",
        'closures': "function mk(){ var n=0; return {inc:function(){ return ++n; }, get:function(){ return n; }}; } var a=mk(),b=mk(); a.inc(); a.inc(); b.inc(); return [a.get(),b.get()];",
        'recursion': "function fib(n){ return n<2?n:fib(n-1)+fib(n-2); } function fact(n){ return n<=1?1:n*fact(n-1); } return [fib(15),fact(20),fact(25)];",
        'exceptions': "function f(k){ try { if(k===1) throw new RangeError('r'); if(k===2) null.x; if(k===3) undefinedFn(); if(k===4) (void 0)(); if(k===5) throw {custom:1}; return 'none'; } catch(e) { return e instanceof Error ? e.name+':'+(e instanceof TypeError)+':'+(typeof e.message) : e; } finally { } } return [f(0),f(1),f(2),f(3),f(4),f(5)];",
        'error-props': "var e=new TypeError('m',{cause:'c'}); class MyE extends Error { constructor(m){ super(m); this.name='MyE'; } } var m=new MyE('x'); return [e.name,e.message,e.cause,String(e),m instanceof MyE,m instanceof Error,m.name,String(m),Object.prototype.toString.call(e)];",
        'label-continue': "var o=[]; outer: for (var i=0;i<3;i++){ for (var j=0;j<3;j++){ if(j===1) continue outer; if(i===2) break outer; o.push(i+''+j); } } return o;",
        'switch-fall': "function f(x){ var o=[]; switch(x){ case 1: o.push(1); case 2: o.push(2); break; default: o.push('d'); case 3: o.push(3); } return o; } return [f(1),f(2),f(3),f(4)];",
        'getter-in-spread': "var n=0; var o={get a(){ return ++n; }}; var c={...o,...o}; return [c,n,Object.assign({},o)];",
        'tagged-template': "function t(s,...v){ return [s.raw.join('|'),s.length,v]; } var x=5; return t`a${x}b\\n${x+1}`;",
        'string-iter': "var s='a\\ud83d\\ude00b'; var o=[]; for (var ch of s) o.push(ch.length); return [s.length,o,[...s].length,s.codePointAt(1),s.split('').length];",
        'sort-stability': "var a=[{k:1,v:'a'},{k:0,v:'b'},{k:1,v:'c'},{k:0,v:'d'}]; a.sort(function(x,y){return x.k-y.k}); return a.map(function(x){return x.v}).join('')+[10,9,1,'b',undefined,'a',,2].sort().join();",
        'array-holes': "var a=[1,,3]; var o=[]; a.forEach(function(v,i){o.push(i)}); return [o,a.map(function(v){return v*2}),Object.keys(a),a.indexOf(undefined),a.includes(undefined),1 in a,a.length,JSON.stringify(a)];",
        'array-length': "var a=[1,2,3]; a.length=1; a[3]=4; var b=[]; b[4294967294]=1; var r; try { b.length=-1; } catch(e) { r=e.name; } return [a,a.length,b.length,r];",
        'number-statics': "return [Number.MAX_SAFE_INTEGER,Number.EPSILON>0,Number.MIN_VALUE>0,Number.MAX_VALUE,Number('0b101'),Number('0o17'),Number(''),Number(' '),Number(null),Number([5]),Number('1,2'),0.1+0.2===0.3,9007199254740993];",
        'typeof-table': "return [typeof null,typeof undefined,typeof 1,typeof 's',typeof true,typeof {},typeof [],typeof function(){},typeof Symbol(),typeof class{},typeof new Date(),typeof /r/,typeof NaN,typeof Math];",
        'getter-on-proto-this': "var p={get who(){ return this.n; }}; var c=Object.create(p); c.n='child'; return c.who;",
        'spread-args': "function f(){ return arguments.length; } var a=[1,2,3]; return [f(...a),f(...a,...a),f(...[]),Math.max(...a),[...a,...'xy'],f(...new Set([1,1,2]))];",
        'optional-call-this': "var o={n:1,f(){ return this.n; }}; return [o.f?.(),o?.f(),(o.f)(),o.g?.(),o['f']?.()];",
        'comma-seq': "var x=(1,2,3); var y; y=(x++,x*2); return [x,y];",
        'in-operator-array': "var a=[1,2]; return [0 in a,2 in a,'length' in a,'push' in a,'0' in a];",
        'string-compare': "return ['a'<'b','a'<'B','10'<'9',10<9,'10'<9,'abc'<'abd','a'<'aa',''<'a',null<1,undefined<1,'b'>'a',[2]>1];",
        'increments': "var s='5'; s++; var t='x'; t++; var u=null; u++; var v; v++; var w=true; w--; var o={n:'3'}; o.n++; var a=['7']; a[0]--; return [s,t,u,v,w,o.n,a[0]];",
        'bitwise': "return [2147483648|0,4294967296|0,-1>>>0,1<<31,1<<32,-1>>>31,5.9|0,-5.9|0,~~'12',1e21|0,NaN|0,Infinity|0,2**31>>0,2**32+5>>>0,(2**53+2)|0,1>>>Infinity];",
        'fn-hoist': "var r=[typeof h1, typeof h2]; function h1(){} if (true) { function h3(){} } var h2=function(){}; function outer(){ return inner(); function inner(){ return 'hoisted'; } } r.push(outer()); return r;",
        'finally-flow': "function a(){ try { return 'try'; } finally { L('fa'); } } function b(){ try { throw 1; } catch(e) { return 'catch'; } finally { L('fb'); } } function c(){ for (var i=0;i<2;i++){ try { continue; } finally { L('fc'+i); } } return 'c'; } function d(){ try { try { throw 'in'; } finally { L('fd1'); } } catch(e) { return 'd:'+e; } finally { L('fd2'); } } function e2(){ try { throw 1 } catch(e) {} finally { L('fe') } return 'e'; } var LOG=[]; function L(x){ LOG.push(x); } return [a(),b(),c(),d(),e2(),LOG];",
        'async-basic': "var o=[]; async function f(){ o.push('f'); return 1; } var p=f(); o.push(typeof p.then); return o;",
        'iterator-protocol': "var it={i:0,[Symbol.iterator](){ return this; }, next(){ return this.i<3?{value:this.i++,done:false}:{value:undefined,done:true}; }}; var a=[...it]; it.i=1; var [x,...r]=it; return [a,x,r,Array.from({length:2,0:'a',1:'b'})];",
        'getown-order': "var o={b:1,a:2,2:'x',1:'y',[Symbol('s')]:1,c:3}; o.d=4; delete o.a; o.a=5; return [Object.keys(o),JSON.stringify(o),Object.getOwnPropertyNames(o)];",
        'json-edge': "return [JSON.stringify({a:undefined,b:function(){},c:Symbol('x'),d:NaN,e:-0,f:new Date(0),g:[undefined]}),JSON.stringify('\\u2028\\ud800'),JSON.stringify(undefined),JSON.parse('[1,{\"a\":null}]'),JSON.parse('\"\\\\u0041\"'),JSON.stringify({toJSON(){return 5}}),JSON.parse('{\"a\":1,\"a\":2}'),JSON.parse(' 1 ')];",
        'json-reviver': "return JSON.parse('{\"a\":[1,2,{\"b\":3}],\"c\":\"x\"}',function(k,v){ return typeof v==='number'?v*10:(k==='c'?undefined:v); });",
        'json-errors': "function t(s){ try { JSON.parse(s); return 'ok'; } catch(e) { return e.name; } } var cyc={}; cyc.s=cyc; var r; try { JSON.stringify(cyc); r='ok'; } catch(e) { r=e.name; } return [t('{a:1}'),t(\"{'a':1}\"),t('[1,]'),t(''),t('01'),t('1.'),t('\"\\\\x\"'),t('nul'),t('[1] x'),r];",
        'string-raw-escapes': "return ['\\x41\\u0042\\u{43}\\0\\'\\\"\\\\\\b\\f\\n\\r\\t\\v'.split('').map(function(c){return c.charCodeAt(0)}),'a\\\nb',String.raw`\\n${1}`];",
        'numeric-literals': "return [0x1F,0o17,0b11,1e3,1_000,.5,5.,0.1e-2,1E+2,0xFFFFFFFFFFFFF,9007199254740993,1.7976931348623157e308,5e-324,2e308];",
        'getter-static-inherit': "class A { static get sg(){ return 'A.sg'; } static sm(){ return this.name; } } class B extends A {} return [B.sg,B.sm(),Object.getOwnPropertyNames(B).sort()];",
        'date-string-roundtrip': "var d=new Date(Date.UTC(2001,8,9,1,46,40)); return [d.getTime(),new Date(d.toISOString()).getTime(),new Date(d.getTime()).toISOString(),Date.UTC(2001,8,9,1,46,40)];",
    }
    for k, body in extra.items():
        out.append(Case("lib:script:%s" % k, wrap_fn(body)))
    # size regimes: library algorithms switch strategy with the input size (small-slice sorts, inline vs heap storage,
    # hash table growth); every operation is repeated on inputs of several sizes, with ties and mixed element kinds
    for n in (5, 21, 40, 100, 257):
        mk = "var n=%d; var a=[]; for (var i=0;i<n;i++){ a.push((i*7)%%5===0 ? String((i*3)%%11) : (i*3)%%11); } var objs=[]; for (var j=0;j<n;j++){ objs.push({k:(j*5)%%7, id:j}); }" % n
        sized = {
            'sort-default-mixed-equal-keys': "a.sort(); return a.map(function(x){ return typeof x==='string' ? 's'+x : 'n'+x; }).join();",
            'sort-default-vs-toSorted': "var b=a.slice(); var c=typeof a.toSorted==='function' ? a.toSorted() : a.slice().sort(); b.sort(); return [b.map(function(x){ return (typeof x)[0]+x; }).join()===c.map(function(x){ return (typeof x)[0]+x; }).join(), b.length];",
            'sort-comparator-ties-stable': "objs.sort(function(p,q){ return p.k-q.k; }); return objs.map(function(o){ return o.k+':'+o.id; }).join();",
            'sort-comparator-reverse-ties': "objs.sort(function(p,q){ return q.k-p.k; }); return objs.map(function(o){ return o.id; }).join();",
            'sort-strings-default': "var s=objs.map(function(o){ return 'k'+o.k; }); var t=s.map(function(x,i){ return {x:x,i:i}; }); t.sort(function(p,q){ return p.x<q.x?-1:(p.x>q.x?1:0); }); return t.map(function(o){ return o.i; }).join();",
            'reverse-index-search': "var r=a.slice().reverse(); return [r[0], r[n-1], a.indexOf(3), a.lastIndexOf(3), a.indexOf('3'), a.includes('0'), a.findIndex(function(x){ return x===10; }), a.findLastIndex ? a.findLastIndex(function(x){ return x===10; }) : -2];",
            'splice-slice-concat': "var b=a.slice(); var rem=b.splice(Math.floor(n/2), 3, 'X', 'Y'); return [rem, b.length, b.slice(-4), a.concat(b).length, b.slice(1, 4), a.flat().length];",
            'map-set-order': "var m=new Map(); var st=new Set(); for (var i2=0;i2<n;i2++){ m.set('k'+((i2*3)%n), i2); st.add((i2*5)%n); } m.delete('k0'); m.set('k0','z'); var ks=[]; m.forEach(function(v,k){ ks.push(k); }); return [ks.join(), Array.from(st).join(), m.size, st.size];",
            'object-keys-order': "var o={}; for (var i3=0;i3<n;i3++){ o['p'+((i3*7)%n)]=i3; } delete o.p0; o.p0=1; return [Object.keys(o).join(), Object.values(o).length, JSON.stringify(o).length];",
            'string-algorithms': "var s2=a.join(''); return [s2.length, s2.split('1').length, s2.replaceAll ? s2.replaceAll('1','[1]').length : -1, s2.indexOf('10'), s2.lastIndexOf('3'), s2.padStart(n*3,'ab').slice(0,5), s2.slice(-7), s2.toUpperCase()===s2];",
            'reduce-map-filter': "return [a.reduce(function(acc,x){ return acc+Number(x); },0), a.map(function(x){ return Number(x)*2; }).filter(function(x){ return x%4===0; }).length, a.every(function(x){ return Number(x)<11; }), a.some(function(x){ return x==='10'; })];",
            'json-roundtrip': "var t2=JSON.stringify({a:a,o:objs}); var back=JSON.parse(t2); return [t2.length, back.a.length, back.o[n-1].id, JSON.stringify(back)===t2];",
        }
        for k, body in sized.items():
            out.append(Case("lib:size:%d:%s" % (n, k), wrap_fn(mk + " " + body)))
    seen = set()
    ded = []
    for c in out:
        if c.id not in seen:
            seen.add(c.id)
            ded.append(c)
    return ded


# ------------------------------------------------------------------ M-await: `await` in every expression position
# Programs are async functions over settled promises only; the observation is the one line logged when the
# function's promise settles (so the divergence in reaction ordering, DESIGN 10.4, cannot show).
AW_VALS = ['P(2)', '3', 'P("s")', 'P(0)', 'P(null)', 'P([1,2])', 'R("boom")', 'P(P(7))']
AW_CTX = [
    "return await {a};", "return await {a} + 1;", "return 1 + await {a};", "return await {a} + await {b};", "return await {a} * 2 - await {b};", "return -await {a};", "return !await {a};",
    "return typeof await {a};", "return void await {a};", "return await {a} ? 'y' : 'n';", "return c ? await {a} : await {b};", "return await {a} || 'd';", "return await {a} && await {b};",
    "return await {a} ?? await {b};", "return await {a} === await {a};", "return await {a} < await {b};", "return [await {a}, await {b}];", "return {{x: await {a}, [await {b}]: 1}};",
    "return f(await {a});", "return f(1, await {a}, await {b});", "return `x${{await {a}}}y${{await {b}}}`;", "return (await {a});", "return (await {a}, 7);", "var x; x = await {a}; return x;",
    "var x = 1; x += await {a}; return x;", "var o = {{2: 'two', s: 'ess'}}; return o[await {a}];", "return (await {a}).toString();", "return new C(await {a}).v;", "return await await {a};",
    "return [...await {a}];", "var o = []; for (const x of await {a}) o.push(x); return o;", "if (await {a}) return 'T'; else return 'F';", "var n = 0; while (await {a} && n < 3) n++; return n;",
    "try {{ return await {a}; }} finally {{ L('fin'); }}", "try {{ await {a}; return 'no'; }} catch (e) {{ return 'caught ' + e; }}", "throw await {a};",
    "switch (await {a}) {{ case await {b}: return 'same'; case 2: return 'two'; default: return 'd'; }}", "return await (async () => await {a})();", "var {{v = await {a}}} = {{}}; return v;",
    "var [p, q = await {b}] = [await {a}]; return [p, q];", "return await {a} instanceof Array;", "return 'k' in {{k: await {a}}};", "return await {a} == await {b} ? await {a} : await {b};",
    "var g = async (z) => z + await {a}; return await g(10) + await g(20);", "var r = 0; for (var i = 0; i < await {a}; i++) r += i; return r;", "return await {a} ** 2;", "return (await {a})?.length;",
    "return delete (await {a})[0];", "var o = {{m(v) {{ return v; }}}}; return o.m(await {a});", "return (await {a}, await {b});", "var t = [await {a}]; t[0] = await {b}; return t;",
]
AW_OPS = ['+', '-', '*', '/', '%', '==', '!=', '===', '!==', '<', '<=', '>', '>=', '&', '|', '^', '<<', '>>', '>>>', '&&', '||', '??', ',', 'in', 'instanceof']


AW_PROGS = {
    'for-await-array': "var o = []; for await (const x of [P(1), 2, P(3)]) o.push(x); return o;",
    'for-await-asyncgen': "async function* g(){ yield 1; yield await P(2); L('mid'); yield P(3); return 4; } var o = []; for await (const x of g()) o.push(x); return o;",
    'asyncgen-manual': "async function* g(){ var got = yield 1; L('got ' + got); try { yield 2; } finally { L('fin'); } } var it = g(); var a = await it.next(); var b = await it.next('v'); var c = await it.return('r'); var d = await it.next(); return [a, b, c, d];",
    'asyncgen-throw': "async function* g(){ try { yield 1; } catch (e) { L('c ' + e); yield 'recovered'; } } var it = g(); await it.next(); var r = await it.throw('T'); return [r, await it.next()];",
    'for-await-break': "async function* g(){ try { yield 1; yield 2; yield 3; } finally { L('closed'); } } var o = []; for await (const x of g()) { o.push(x); if (x == 2) break; } return o;",
    'for-await-rejects': "var o = []; try { for await (const x of [P(1), R('bad'), P(3)]) o.push(x); } catch (e) { o.push('caught ' + e); } return o;",
    'class-async-methods': "class K { constructor(){ this.b = 5; } async m(x){ return await x + this.b; } static async s(x){ return (await x) * 2; } async *ag(){ yield await P(this.b); } } var k = new K(); var o = []; for await (const v of k.ag()) o.push(v); return [await k.m(P(1)), await K.s(4), o];",
    'object-async-methods': "var ob = { v: 2, async m(){ return await P(this.v) + 1; }, am: async (z) => await z }; return [await ob.m(), await ob.am(P(9))];",
    'try-catch-finally-awaits': "try { L(await P('t')); throw await P('x'); } catch (e) { L('c' + await P(e)); return await P('ret'); } finally { L(await P('f')); }",
    'finally-overrides': "async function g(){ try { return await P(1); } finally { await P(0); L('f'); } } async function h(){ try { throw await P('e'); } finally { return await P('over'); } } return [await g(), await h()];",
    'loop-break-continue': "var o = []; outer: for (var i = 0; i < await P(4); i++) { for (var j = 0; j < 3; j++) { if (await P(j) == 1) continue outer; if (i == await P(3)) break outer; o.push(i + ':' + j); } } return o;",
    'do-while-await': "var n = 0; do { n += await P(2); } while (await P(n) < 5); return n;",
    'promise-all-destructure': "var [a, {b}, ...rest] = await Promise.all([P(1), P({b: 2}), 3, P(4)]); return [a, b, rest];",
    'all-settled-race-any': "var s = await Promise.allSettled([P(1), R('no')]); return [s.map(function(x){ return x.status; }), await Promise.race([P('first'), P('second')]), await Promise.any([R('a'), P('ok')])];",
    'await-nonpromise-object': "var ob = {k: 1}; return (await ob) === ob;",
    'await-in-args-order': "function g(a, b, c){ return [a, b, c]; } return g(L('1') || await P('a'), L('2') || await P('b'), L('3') || 'c');",
    'await-closure-capture': "var fs = []; for (let i = 0; i < 3; i++) { await P(i); fs.push(function(){ return i; }); } return fs.map(function(h){ return h(); });",
    'await-recursion': "async function fact(n){ return n <= 1 ? 1 : n * await fact(n - 1); } return await fact(6);",
    'await-rejection-propagates': "async function inner(){ await R(new TypeError('x')); L('not reached'); } async function outer(){ try { await inner(); } catch (e) { return e.name; } } return await outer();",
    'await-throw-in-async-arrow': "var h = async () => { throw new RangeError('r'); }; try { await h(); } catch (e) { return e instanceof RangeError; }",
    'then-chain': "return await P(1).then(function(v){ return v + 1; }).then(function(v){ return P(v * 10); }).catch(function(){ return 'no'; }).finally(function(){ L('fin'); });",
    'catch-chain': "return await R('e1').then(function(){ return 'no'; }).catch(function(e){ return 'c:' + e; }).then(function(v){ throw v + '!'; }).catch(function(e){ return e; });",
    'await-in-switch-and-ternary': "var o = []; for (var i = 0; i < 3; i++) { switch (await P(i)) { case 0: o.push(await P('z')); break; case await P(1): o.push(i ? await P('o') : 'x'); default: o.push('d'); } } return o;",
    'await-in-template-and-member': "var ob = {k: {v: 'deep'}}; return `${(await P(ob)).k.v}-${(await P([1, 2, 3]))[await P(1)]}`;",
    'await-assign-ops': "var x = 1; x += await P(2); x *= await P(3); x **= await P(2); var ob = {n: 1}; ob.n += await P(4); ob['n'] -= await P(1); return [x, ob.n];",
    'await-logical-assign': "var a = null, b = 0, d = 1; a ??= await P('A'); b ||= await P('B'); d &&= await P('D'); return [a, b, d];",
    'await-short-circuit': "var r = [false && await P(L('no1')), true || await P(L('no2')), 1 ?? await P(L('no3'))]; return r;",
    'await-getter-and-this': "class G { get v(){ return P(7); } async run(){ return await this.v + 1; } } return await new G().run();",
    'async-iife-and-nested': "var r = await (async function(){ return await (async () => await P('in'))() + '!'; })(); return r;",
    'await-optional-chain': "var n = null, ob = {f(){ return P('called'); }}; return [await n?.f(), await ob?.f(), (await P(null))?.x];",
    'await-spread-args': "function g(){ return arguments.length; } return [g(...await P([1, 2, 3])), [0, ...await P('ab')], {...await P({q: 1})}];",
    'await-new-and-instanceof': "class T { constructor(v){ this.v = v; } } var t = new T(await P(3)); return [t.v, await P(t) instanceof T, typeof await P(T)];",
    'await-comma-and-void': "var x = (await P(1), await P(2)); return [x, void await P(3), typeof void 0];",
    'await-unary-mix': "return [-await P(2), +await P('3'), !await P(0), ~await P(5), typeof await P('s'), - -await P(1)];",
    'await-compare-chain': "return [await P(1) < await P(2) === true, await P(2) > await P(1) == await P(true), await P(1) + await P(2) * await P(3)];",
    'await-in-array-holes-and-index': "var arr = [10, 20, 30]; arr[await P(1)] = await P('set'); return [arr, arr[await P(2)], arr.length];",
    'await-in-computed-class-member': "var key = await P('dyn'); class Q { [key](){ return 'm'; } static [key + 'S'] = 'st'; } return [new Q().dyn(), Q.dynS];",
    'await-in-default-destructure': "var {a = await P('da'), b = await P(L('no') || 'db')} = {b: 1}; var [c = await P('dc')] = []; return [a, b, c];",
    'await-generator-interplay': "function* sg(){ yield P(1); yield P(2); } var o = []; for (const p of sg()) o.push(await p); return o;",
    'await-in-while-condition-with-side-effects': "var q = [P(3), P(2), P(0), P(9)]; var o = []; var v; while ((v = await q.shift())) o.push(v); return [o, q.length];",
}


def aw_wrap(body):
    return (PRINTER + "\n/*async*/ function P(v){ return Promise.resolve(v); } function R(v){ return Promise.reject(v); } function f(){ return [].slice.call(arguments); } function C(v){ this.v = v; }\n"
            "var LOGS = []; function L(v){ LOGS.push(v); } var c = true;\nasync function __main(){\n" + body + "\n}\n"
            "__main().then(function(v){ console.log('R ' + __s([v, LOGS])); }, function(e){ console.log('E ' + (e instanceof Error ? e.name : __s(e)) + ' ' + __s(LOGS)); });\n0")


def fam_await():
    out = []
    for ci, ctx in enumerate(AW_CTX):
        two = '{b}' in ctx
        for a in AW_VALS:
            for b in (AW_VALS[:4] + ['R("bad")'] if two else ['0']):
                out.append(Case("await:ctx%d:%s:%s" % (ci, a, b), aw_wrap(ctx.format(a=a, b=b))))
    for k, body in AW_PROGS.items():
        out.append(Case("await:prog:" + k, aw_wrap(body)))
    for op in AW_OPS:
        for a in ['P(2)', 'P("1")', 'P(0)', 'P(null)', '5']:
            for b in ['P(3)', 'P("1")', 'P([])', 'P({2: 1})', '1']:
                e = "await %s %s await %s" % (a, op, b)
                out.append(Case("await:op:" + e, aw_wrap("return [%s, 1 + %s, %s + 1, !(%s)];" % (e, e, e, e))))
    return out


# ------------------------------------------------------------------ M-misc: object model, protocols, functions, library (hand-written)
def fam_misc():
    from . import misc01
    out = []
    pre = "var LOG=[]; function L(v){ LOG.push(v); }\n"
    for k, body in misc01.MISC.items():
        out.append(Case("misc:" + k, wrap_fn(pre + body)))
        sp = misc01.split_items(body) if k not in misc01.NO_SPLIT else None
        if sp:
            setup, items = sp
            for i, it in enumerate(items):
                out.append(Case("misc:%s#%d:%s" % (k, i, it[:60]), wrap_fn(pre + setup + "\nreturn (" + it + ");")))
    return out


FAMILIES = {
    'expr': fam_expr, 'forms': fam_forms, 'flow1': lambda: fam_flow(1), 'flow2': lambda: fam_flow(2), 'scope': fam_scope, 'pattern': fam_pattern,
    'class': fam_class, 'gen': lambda: fam_gen(4), 'lib': fam_lib,
    'await': fam_await, 'misc': fam_misc,
    'flow3': lambda: fam_flow(3, quick=False), 'expr2': fam_expr2,
}
QUICK_FAMILIES = ['expr', 'forms', 'flow1', 'flow2', 'scope', 'pattern', 'class', 'gen', 'lib', 'await', 'misc']
THOROUGH_ONLY = ['flow3', 'expr2']
