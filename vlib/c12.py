"""C12 — execution is deterministic and interpreter instances are isolated.
(a) interleavings in one thread: for pairs of programs every interleaving of their host steps with at most
    2 (thorough 3) context switches - iterative context bounding - each interpreter's full trace must equal
    its solo trace; (b) lifetimes: all histories of create/run/abandon/drop on up to 3 other instances before
    a probe run; (c) two OS threads with a turnstile handing over after every step; (d) separate processes
    with the heap displaced by k*16 bytes (k = 0..63) and ASLR on/off: every program's trace digest must
    be identical."""
import json, os, subprocess, sys
from . import core, c02, c11

PID = "C12"
DEP = ["/p/dep.ts", "export let n = 1; export function inc(){ n++; return n; }"]

MANY = ["/p/many.ts", "export const zeta = 1; export function alpha(){ return 2; } export let mid = 3; export class B1 {} export const a0 = 5, q = 6; export default 7; export { zeta as renamed };"]
STAR = ["/p/star.ts", "export * from './many.ts'; export const own1 = 1; export const aaa = 2;"]

PROGRAMS = {
    # the key order of module namespaces (as scripts and the host see it) must depend on the names only
    "module-namespace-order": {"src": "import * as ns from './many.ts'; import * as st from './star.ts'; export const zz = 1, bb = 2, mm = 3, aa = 4; export function ff(){} const ks = []; for (const k in ns) ks.push(k); Object.keys(ns).join() + '|' + ks.join() + '|' + Object.keys(st).join() + '|' + JSON.stringify(ns)", "path": "/p/main.ts", "modules": [MANY, STAR]},
    "module-many-exports": {"src": "export const e9 = 9, e1 = 1, e5 = 5; export let z = 0, y = 0, x = 0; export function w(){} export class V {} export default 1; export const u = [e9, e1].join(); u", "path": "/p/main.ts"},
    "compute": "let s = 0; for (let i = 0; i < 25; i++) { s += i * i % 7; } s",
    "object-keys": "const o = {}; for (const k of ['zeta', 'alpha', 'm', 'b1', 'a0', 'q']) o[k] = k.length; const ks = []; for (const k in o) ks.push(k); ks.join() + JSON.stringify(o)",
    "map-object-keys": "const ks = [{a:1}, {b:2}, [3], function(){}, {c:3}]; const m = new Map(); ks.forEach((k, i) => m.set(k, i)); const s = new Set(ks); [...m.values()].join() + '|' + [...s].length + '|' + [...m.keys()].map(k => typeof k).join()",
    # every built-in that builds a collection keyed by objects must keep first-seen / insertion order, never address order
    "groupby-object-keys": "const ks = []; for (let i = 0; i < 24; i++) ks.push({id: i}); const items = []; for (let i = 0; i < 48; i++) items.push({k: ks[(i * 7) % 24], i}); const g = Map.groupBy(items, it => it.k); const o = Object.groupBy(items, it => 'g' + (it.i % 5)); [...g.keys()].map(k => k.id).join() + '|' + [...g.values()].map(v => v.length).join('') + '|' + Object.keys(o).join()",
    "set-map-object-order": "const objs = []; for (let i = 0; i < 20; i++) objs.push(i % 3 ? {i} : [i]); const st = new Set(objs.concat(objs.slice(3, 9))); const m = new Map(objs.map((o, i) => [o, i])); m.delete(objs[2]); m.set(objs[2], 'again'); st.delete(objs[5]); st.add(objs[5]); [...st].map(o => Array.isArray(o) ? 'a' + o[0] : 'o' + o.i).join() + '|' + [...m.values()].join() + '|' + [...m.entries()].length",
    "collections-clone-order": "const ks = [{a: 1}, {b: 2}, {c: 3}, {d: 4}, {e: 5}, {f: 6}, {g: 7}]; const m = new Map(ks.map((k, i) => [k, i])); const s = new Set(ks); const c = typeof structuredClone === 'function' ? structuredClone({m, s}) : {m, s}; [...c.m.values()].join() + '|' + [...c.s].map(o => Object.keys(o)[0]).join() + '|' + [...new Set([...m.keys()].reverse())].map(o => Object.keys(o)[0]).join()",
    "object-keyed-algorithms": "const ks = []; for (let i = 0; i < 16; i++) ks.push({i}); const ws = new WeakSet(ks.slice(0, 8)); const seen = new Map(); for (const k of ks.concat(ks)) seen.set(k, (seen.get(k) || 0) + 1); const uniq = [...new Set(ks.concat(ks.slice().reverse()))]; const fe = Object.fromEntries([...seen].map(([k, v]) => ['k' + k.i, v])); ks.filter(k => ws.has(k)).length + '|' + uniq.map(k => k.i).join() + '|' + Object.keys(fe).join() + '|' + [...seen.values()].join('')",
    "symbols": "const a = Symbol('a'), b = Symbol('b'); const o = {[b]: 2, [a]: 1, x: 0}; Object.getOwnPropertySymbols(o).map(s => s.description).join() + String(Symbol.for('k') === Symbol.for('k')) + (a === b)",
    "weakmap-identity": "const wm = new WeakMap(); const objs = []; for (let i = 0; i < 8; i++) { const o = {i}; objs.push(o); wm.set(o, i * 2); } objs.map(o => wm.get(o)).join()",
    "sort-objects": "const xs = [5, 3, 9, 1].map(v => ({v})); xs.sort((p, q) => p.v - q.v); xs.map(x => x.v).join() + [{}, [], () => 1].map(String).join('|')",
    "closures-gc": "function mk(i){ const big = [i, {i}]; return () => big[1].i + i; } const fs = []; for (let i = 0; i < 12; i++) fs.push(mk(i)); fs.map(f => f()).join()",
    "random-date": "[Math.random() < 1, typeof Date.now(), new Date(0).toISOString(), Math.floor(Math.random() * 1000)].join()",
    "orders": "import { order } from 'tsrun:host'; const a = await order({k: 'a'}); const b = await order(['b']); console.log(a, b); a + b",
    "orders-parallel": "import { order } from 'tsrun:host'; async function f(k){ return (await order(k)) + '!'; } const r = await Promise.all([f('x'), f('y')]); r.join()",
    "module-import": {"src": "import { n, inc } from './dep.ts'; inc(); export const r = n; console.log('m', r); r", "path": "/p/main.ts", "modules": [DEP]},
    "fails-typeerror": "const o = {a: {b: null}}; function f(){ return o.a.b.c; } f()",
    "fails-after-work": "const acc = []; for (let i = 0; i < 5; i++) acc.push({i}); throw new RangeError('x' + acc.length)",
    "generator-class": "class C { *g(){ yield* [1, 2, 3]; } static s = new Map([[1, {}]]); } const c = new C(); [...c.g()].join() + C.s.size",
    "string-intern": "const parts = []; for (let i = 0; i < 20; i++) parts.push('k' + (i % 5)); const o = {}; parts.forEach(p => o[p] = (o[p] || 0) + 1); JSON.stringify(o)",
    "json-roundtrip": "const d = {z: [1, {y: 2}], a: 'é', n: null}; JSON.stringify(JSON.parse(JSON.stringify(d)))",
    "regexp": "const r = /(\\w)(\\d)/g; const out = []; let m; while ((m = r.exec('a1 b2 c3'))) out.push(m[1] + m[2] + m.index); out.join()",
    # the point where recursion through built-ins gets its RangeError is a constant of the program: it must not move
    # with the native stack position the host steps from, whatever crossed a native frame earlier
    "stack-probe-after-caught-throw": "import { order } from 'tsrun:host'; let first = 'none'; try { [1].forEach(() => { throw new Error('x'); }); } catch (e) { first = 'caught'; } await order('pause'); let depth = 0; function rec(){ depth++; [1].forEach(rec); } try { rec(); } catch (e) { first += ':' + (e instanceof RangeError); } first + '|' + depth",
    "stack-probe-after-sort-throw": "import { order } from 'tsrun:host'; let n = 0; try { [3, 1, 2].sort(() => { throw new TypeError('cmp'); }); } catch (e) { n++; } try { JSON.parse('[1]', () => { throw 1; }); } catch (e) { n++; } await order('p1'); await order('p2'); function depth(k){ try { return [k].map(x => depth(x + 1))[0]; } catch (e) { return k; } } n + '|' + depth(0)",
    "stack-probe-plain": "import { order } from 'tsrun:host'; await order('pause'); let depth = 0; function rec(){ depth++; [1].forEach(rec); } try { rec(); } catch (e) { depth = -depth; } await order('again'); let d2 = 0; function rec2(){ d2++; [1].map(rec2); } try { rec2(); } catch (e) {} depth + '|' + d2",
    "proxy-reflect": "const log = []; const p = new Proxy({}, {get(t, k){ log.push(String(k)); return 1; }}); p.a + p.b; Reflect.ownKeys({x: 1, [Symbol.iterator]: 2}).length + log.join()",
}


def mk(p):
    return p if isinstance(p, dict) else {"src": p}


def run(tier, seed):
    chk = core.Check(PID, tier, seed, "model_checking")
    names = list(PROGRAMS)
    states = trans = 0
    fam = {}
    # (a) interleavings
    pairs = []
    for i, a in enumerate(names):
        for j, b in enumerate(names):
            if i < j and (tier != "quick" or (i + j) % 4 == 0 or a.startswith(("orders", "module", "map", "fails")) and b.startswith(("orders", "symbols", "weakmap", "module", "fails"))):
                pairs.append((a, b))
    pairs.append(("orders", "orders"))
    pairs.append(("map-object-keys", "map-object-keys"))
    for pr in [n for n in names if n.startswith("stack-probe")]:
        for other in ("compute", "orders", pr):
            if (pr, other) not in pairs and (other, pr) not in pairs:
                pairs.append((pr, other))
    cs = [{"id": "il|%s|%s" % (a, b), "a": mk(PROGRAMS[a]), "b": mk(PROGRAMS[b]), "switches": 2 if tier == "quick" else 3, "stride": 7 if tier == "quick" else 9, "max_schedules": 20000 if tier == "quick" else 60000, "displace_kib": 256} for a, b in pairs]
    res = core.run_batch(cs, sub_args=("iso", "interleave"), hang_s=900, as_gb=2)
    f = fam.setdefault("interleavings", {"pairs": 0, "schedules": 0, "bad": 0})
    for c in cs:
        o = res[c["id"]]
        f["pairs"] += 1
        if o.get("status") != "ok":
            chk.fail("proc|" + c["id"], str(o.get("status")), "%s: worker %s" % (c["id"], o.get("status")), {"kind": "interleave", "case": c}, cluster="process-level failure")
            continue
        f["schedules"] += o["schedules"]
        f["widest_stride_used"] = max(f.get("widest_stride_used", 0), o.get("stride_used", 0))
        if o.get("stride_used", c["stride"]) != c["stride"]:
            f["pairs_with_widened_stride"] = f.get("pairs_with_widened_stride", 0) + 1
        states += o["schedules"]
        trans += o["schedules"] * (o["steps_a"] + o["steps_b"])
        if o["nbad"]:
            f["bad"] += 1
            b0 = o["bad"][0]
            chk.fail("il|" + c["id"], "%s@%s" % (b0["who"], b0["at_step"]), "%s: under schedule %s interpreter %s diverges from its solo run at step %s: %s instead of %s (%d of %d schedules)" % (c["id"], " ".join(b0["schedule"]), b0["who"], b0["at_step"], str(b0["got"])[:120], str(b0["want"])[:120], o["nbad"], o["schedules"]),
                     {"kind": "interleave", "case": c}, cluster="interleaving changes a trace: " + c["id"].split("|", 1)[1])
    # (b) lifetimes
    cs = [{"id": "life|" + probe, "progs": [mk(PROGRAMS[x]) for x in ("map-object-keys", "orders", "fails-after-work")], "probe": mk(PROGRAMS[probe]), "depth": 3 if tier == "quick" else 4}
          for probe in (["map-object-keys", "symbols", "orders", "object-keys"] if tier == "quick" else names)]
    res = core.run_batch(cs, sub_args=("iso", "lifetimes"), hang_s=900, as_gb=2)
    f = fam.setdefault("lifetimes", {"probes": 0, "histories": 0, "bad": 0})
    for c in cs:
        o = res[c["id"]]
        f["probes"] += 1
        if o.get("status") != "ok":
            chk.fail("proc|" + c["id"], str(o.get("status")), "%s: worker %s" % (c["id"], o.get("status")), {"kind": "lifetimes", "case": c}, cluster="process-level failure")
            continue
        f["histories"] += o["histories"]
        states += o["histories"]
        trans += o["histories"]
        if o["nbad"]:
            f["bad"] += 1
            chk.fail("life|" + c["id"], str(o["bad"][0]["history"]), "%s: probe differs after instance history %s" % (c["id"], o["bad"][0]["history"]), {"kind": "lifetimes", "case": c}, cluster="instance lifetimes change a fresh run: " + c["id"])
    # (c) threads
    cs = [{"id": "th|%s|%s|%d" % (a, b, ch), "a": mk(PROGRAMS[a]), "b": mk(PROGRAMS[b]), "chunk": ch} for a, b in pairs[:: (3 if tier == "quick" else 1)] for ch in (1, 5)]
    res = core.run_batch(cs, sub_args=("iso", "threads"), hang_s=900, as_gb=2)
    f = fam.setdefault("threads", {"pairs": 0, "bad": 0})
    for c in cs:
        o = res[c["id"]]
        f["pairs"] += 1
        states += 1
        if o.get("status") != "ok" or o.get("nbad"):
            f["bad"] += 1
            chk.fail("th|" + c["id"], str(o.get("bad")), "%s: with each interpreter on its own OS thread (turnstile after every %d steps) trace of %s differs from the solo run" % (c["id"], c["chunk"], o.get("bad")), {"kind": "threads", "case": c}, cluster="threads: " + c["id"])
    # (d) processes / address layouts
    exe = core.build()
    plist = "".join(json.dumps(dict(mk(PROGRAMS[n]), id=n)) + "\n" for n in names)
    digests = {}
    layouts = []
    ks = list(range(0, 64, 4)) if tier == "quick" else list(range(64))
    for k in ks:
        layouts.append(("k=%d" % k, [exe, "iso", "digest", str(k)]))
    layouts.append(("aslr-off", ["setarch", os.uname().machine, "-R", exe, "iso", "digest", "3"]))
    layouts.append(("env-padding", ["env", "PAD=" + "x" * 5000, exe, "iso", "digest", "1"]))
    f = fam.setdefault("address-layouts", {"layouts": 0, "programs": len(names), "bad": 0})
    for lname, cmd in layouts:
        r = subprocess.run(cmd, input=plist, stdout=subprocess.PIPE, stderr=subprocess.PIPE, text=True)
        if r.returncode != 0:
            if lname == "aslr-off":
                continue  # setarch may be unavailable in the sandbox: not a verdict
            raise core.MachineryError("iso digest failed for layout %s" % lname)
        f["layouts"] += 1
        for line in r.stdout.splitlines():
            n, d, steps = line.split()
            states += 1
            trans += int(steps)
            digests.setdefault(n, {}).setdefault(d, []).append(lname)
    for n, ds in digests.items():
        if len(ds) > 1:
            f["bad"] += 1
            chk.fail("layout|" + n, str(sorted(len(v) for v in ds.values())), "program %s: trace digest differs between processes / heap displacements: %s" % (n, {d: v[:3] for d, v in ds.items()}), {"kind": "layout", "program": n}, cluster="address-layout dependent: " + n)
    chk.coverage = {"states": states, "transitions": trans, "traces_validated_against_impl": states, "families": fam, "programs": len(names),
                    "samples": [{"pair": list(pairs[0]), "schedule": ["a:3", "b:5", "a:end", "b:end"]}, {"lifetime_history": ["Create(0)", "Abandon(0, 1)", "Create(1)", "Drop(0)"]}],
                    "rule": "interleavings: both start orders, every pair of switch points on a stride of 7 (thorough: 3 switches, stride 9; widened per pair so that no pair exceeds 20 000 (60 000) schedules - see widest_stride_used) for the selected program pairs, each interpreter's segments alternating between the host's top frame and a frame 256 KiB deeper on the native stack (the solo reference runs from the top frame); lifetimes: all histories of depth <= 3 (4) over create/run/abandon/drop on 3 instance slots before a probe; threads: turnstile hand-over after 1 and 5 steps; layouts: heap displaced by k*16 bytes + a k*4096-byte block for k in 0..63 (quick: every 4th), ASLR off, environment padding. states = executions, transitions = host steps replayed"}
    chk.assumptions = ["address-layout nondeterminism is enumerated over a stated finite set of layouts only", "time and random providers are fixed by the harness"]
    return chk.finish(exhaustive=True)


def replay(path):
    rp = json.load(open(path))
    if rp["kind"] == "layout":
        print("re-run ./check C12 --tier quick (layout comparisons need all processes)")
        return 2
    c = rp["case"]
    o = core.run_batch([c], sub_args=("iso", {"interleave": "interleave", "lifetimes": "lifetimes", "threads": "threads"}[rp["kind"]]), hang_s=900, as_gb=2)[c["id"]]
    print(json.dumps(o)[:1500])
    if o.get("status") != "ok" or o.get("nbad"):
        print("VIOLATION property=C12 replay=%s" % path)
        return 1
    return 0
