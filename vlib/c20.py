"""C20 — error reports point at the code that failed.
Exhaustive enumeration of (fault x fault context x call-chain shape x module split x layout).  The
generator builds each program as a token stream with range markers around the fault expression and
around every call expression of the chain; a layout renders the stream to text and computes the
(line, column) range of every marker, so the expected positions are known by construction.
Oracle: every reported position lies inside the recorded range of the right file; the stack lists
exactly the active frames, innermost first, with the enclosing function names."""
import itertools, json, os, sys
from . import core

PID = "C20"

# --------------------------------------------------------------------------- token streams
# A stream is a list of: str token | ("S", k) | ("E", k) | ("NL",) (preferred statement break) | ("RAW", text)
NOBREAK_AFTER = {"return", "throw", "async", "yield", "get", "static"}
NOBREAK_BEFORE = {"=>", "++", "--"}


def S(k):
    return ("S", k)


def E(k):
    return ("E", k)


NL = ("NL",)

WIDE = "ä€\U0001F600"


class Layout:
    def __init__(self, base, nl, comment, wide, tpl, indent):
        self.base, self.nl, self.comment, self.wide, self.tpl, self.indent = base, nl, comment, wide, tpl, indent

    def id(self):
        return "%s/%s/%s/%s/%s/%s" % (self.base, {"\n": "lf", "\r\n": "crlf", "\r": "cr", "\u2028": "ls"}[self.nl], self.comment, "wide" if self.wide else "ascii", "tpl" if self.tpl else "notpl", self.indent)


def render(stream, lay):
    """returns (text, ranges) ; ranges[k] = ((line, col) start inclusive, (line, col) end exclusive) in code points, 1-based"""
    out = []
    line, col = 1, 1
    ranges = {}
    pending_S = []
    last_end = (1, 1)
    first = True
    prev_tok = None

    def emit(text):
        nonlocal line, col
        i = 0
        while i < len(text):
            if text.startswith("\r\n", i):
                out.append("\r\n")
                line += 1
                col = 1
                i += 2
                continue
            ch = text[i]
            out.append(ch)
            if ch in ("\n", "\r", "\u2028", "\u2029"):
                line += 1
                col = 1
            else:
                col += 1
            i += 1
    depth = 0
    want_break = False
    for it in stream:
        if isinstance(it, tuple):
            if it[0] == "S":
                pending_S.append(it[1])
            elif it[0] == "E":
                ranges[it[1]] = (ranges[it[1]][0], last_end)
            elif it[0] == "NL":
                want_break = True
            continue
        tok = it
        # ---- separator before tok
        nobreak = (prev_tok in NOBREAK_AFTER) or (tok in NOBREAK_BEFORE) or first
        sep = ""
        if not first:
            if lay.base == "single":
                sep = " "
            elif lay.base == "line":
                sep = (lay.nl + (lay.indent == "tab" and "\t" or "  ") * max(depth - (1 if tok == "}" else 0), 0)) if (want_break and not nobreak) else (lay.indent == "tab" and "\t" or " ")
            elif lay.base == "tokline":
                sep = " " if nobreak else (lay.nl + (lay.indent == "tab" and "\t" or " "))
            elif lay.base == "blank":
                sep = (lay.nl + lay.nl + lay.nl) if (want_break and not nobreak) else " "
            cm = ""
            if lay.comment == "block":
                cm = "/* c */ "
            elif lay.comment == "line" and not nobreak:
                cm = "// note" + lay.nl
            elif lay.comment == "line" and nobreak:
                cm = "/* n */ "
            elif lay.comment == "mlblock" and not nobreak:
                cm = "/* a" + lay.nl + " b */ "
            elif lay.comment == "mlblock" and nobreak:
                cm = "/* n */ "
            sep = sep + cm
        want_break = False
        emit(sep)
        if pending_S:
            if lay.wide:
                emit("/*" + WIDE + "*/ ")
            for k in pending_S:
                ranges[k] = ((line, col), None)
            pending_S = []
        emit(tok)
        last_end = (line, col)
        if tok == "{":
            depth += 1
        elif tok == "}":
            depth -= 1
        prev_tok = tok
        first = False
    for k in pending_S:          # a marker at end of input denotes the end-of-file position
        ranges[k] = ((line, col), (line, col))
    return "".join(out), ranges


# --------------------------------------------------------------------------- runtime faults
# each: (id, setup tokens, fault expression tokens, error class)
FAULTS = [
    ("undef-ident", [], ["undefinedName"], "ReferenceError"),
    ("prop-of-undefined", ["const", "u", ":", "any", "=", "{", "}", ";", NL], ["u", ".", "foo", ".", "bar"], "TypeError"),
    ("prop-of-null", ["const", "n", ":", "any", "=", "null", ";", NL], ["n", ".", "p"], "TypeError"),
    ("call-nonfunction", ["const", "x", ":", "any", "=", "1", ";", NL], ["x", "(", ")"], "TypeError"),
    ("method-of-undefined", ["const", "u", ":", "any", "=", "{", "}", ";", NL], ["u", ".", "nope", "(", "1", ",", "2", ")"], "TypeError"),
    ("new-nonconstructor", ["const", "q", ":", "any", "=", "5", ";", NL], ["new", "q", "(", ")"], "TypeError"),
    ("tdz", [], ["tdzVar"], "ReferenceError"),
]
# contexts wrap the fault expression F (already carrying its S/E markers) into the returned expression
CONTEXTS = {
    "plain": lambda F: F,
    "binary": lambda F: ["1", "+", "(", "2", "*"] + F + [")"],
    "call-arg": lambda F: ["String", "(", "1", ","] + F + [",", "3", ")"],
    "template": lambda F: [("RAW", "`a ${")] + F + [("RAW", "} z`")],
    "object": lambda F: ["(", "{", "k", ":", "1", ",", "v", ":"] + F + ["}", ")"],
    "cond": lambda F: ["true", "?"] + F + [":", "0"],
    "array": lambda F: ["[", "0", ","] + F + ["]"],
}
KINDS = ["fn", "method", "static", "arrow", "fnexpr", "nfnexpr", "ctor", "getter", "fieldfn", "fieldfn-derived", "staticfieldfn", "fieldfn-with-ctor"]


def frame_def(k, kind, body):
    """tokens defining frame k whose body (list of tokens, statements) is given; returns (tokens, call expr tokens, accepted names, export name)"""
    if kind == "fn":
        return ["function", "f%d" % k, "(", ")", "{", NL] + body + ["}", NL], ["f%d" % k, "(", ")"], ["f%d" % k], "f%d" % k
    if kind == "method":
        return ["class", "C%d" % k, "{", NL, "m%d" % k, "(", ")", "{", NL] + body + ["}", NL, "}", NL], ["new", "C%d" % k, "(", ")", ".", "m%d" % k, "(", ")"], ["m%d" % k, "C%d.m%d" % (k, k)], "C%d" % k
    if kind == "static":
        return ["class", "C%d" % k, "{", NL, "static", "s%d" % k, "(", ")", "{", NL] + body + ["}", NL, "}", NL], ["C%d" % k, ".", "s%d" % k, "(", ")"], ["s%d" % k, "C%d.s%d" % (k, k)], "C%d" % k
    if kind == "arrow":
        return ["const", "a%d" % k, "=", "(", ")", "=>", "{", NL] + body + ["}", ";", NL], ["a%d" % k, "(", ")"], ["a%d" % k, None], "a%d" % k
    if kind == "fnexpr":
        return ["const", "e%d" % k, "=", "function", "(", ")", "{", NL] + body + ["}", ";", NL], ["e%d" % k, "(", ")"], ["e%d" % k, None], "e%d" % k
    if kind == "nfnexpr":
        return ["const", "n%d" % k, "=", "function", "inner%d" % k, "(", ")", "{", NL] + body + ["}", ";", NL], ["n%d" % k, "(", ")"], ["inner%d" % k], "n%d" % k
    if kind == "ctor":
        return ["class", "K%d" % k, "{", NL, "constructor", "(", ")", "{", NL] + body + ["}", NL, "}", NL], ["new", "K%d" % k, "(", ")"], ["K%d" % k, "constructor", "new K%d" % k], "K%d" % k
    if kind == "getter":
        return ["const", "o%d" % k, "=", "{", NL, "get", "p%d" % k, "(", ")", "{", NL] + body + ["}", NL, "}", ";", NL], ["o%d" % k, ".", "p%d" % k], ["p%d" % k, "get p%d" % k], "o%d" % k
    # functions held in class fields (compiled inside the synthesized or the explicit constructor / the class body)
    if kind == "fieldfn":
        return ["class", "F%d" % k, "{", NL, "ff%d" % k, "=", "(", ")", "=>", "{", NL] + body + ["}", ";", NL, "}", NL], ["new", "F%d" % k, "(", ")", ".", "ff%d" % k, "(", ")"], ["ff%d" % k, None], "F%d" % k
    if kind == "fieldfn-derived":
        return ["class", "G%d" % k, "{", "}", NL, "class", "F%d" % k, "extends", "G%d" % k, "{", NL, "ff%d" % k, "=", "function", "(", ")", "{", NL] + body + ["}", ";", NL, "}", NL], ["new", "F%d" % k, "(", ")", ".", "ff%d" % k, "(", ")"], ["ff%d" % k, None], "F%d" % k
    if kind == "staticfieldfn":
        return ["class", "F%d" % k, "{", NL, "static", "sf%d" % k, "=", "(", ")", "=>", "{", NL] + body + ["}", ";", NL, "}", NL], ["F%d" % k, ".", "sf%d" % k, "(", ")"], ["sf%d" % k, None], "F%d" % k
    if kind == "fieldfn-with-ctor":
        return ["class", "F%d" % k, "{", NL, "ff%d" % k, "=", "(", ")", "=>", "{", NL] + body + ["}", ";", NL, "constructor", "(", ")", "{", "}", NL, "}", NL], ["new", "F%d" % k, "(", ")", ".", "ff%d" % k, "(", ")"], ["ff%d" % k, None], "F%d" % k
    raise ValueError(kind)


def runtime_program(fault, ctx, kinds, nmod, tpl_line):
    """kinds[k] = kind of frame k (0 innermost). Returns (modules: list of (path, stream), main path, expected frames)
    expected frames: list innermost first of (names accepted, file, range key) ; last = top level"""
    fid, setup, fexpr, cls = fault
    d = len(kinds)
    paths = ["/p/main.ts"] + ["/p/m%d.ts" % i for i in range(1, nmod)]
    mod_of = [((d - 1 - k) * nmod) // d for k in range(d)]    # outermost frames live in main (0), inner frames in deeper modules: no import cycles
    streams = {i: [] for i in range(nmod)}
    exports = {}
    expected = []
    calls = {}
    for k in range(d):
        m = mod_of[k]
        if k == 0:
            F = [S(0)] + list(fexpr) + [E(0)]
            body = list(setup)
            if tpl_line:
                body += ["var", "tq", "=", ("RAW", "`t1\nt2 ${1}\nt3`"), ";"]
            if kinds[0] == "ctor":
                body += ["this", ".", "v", "="] + CONTEXTS[ctx](F) + [";", NL]
            else:
                body += ["return"] + CONTEXTS[ctx](F) + [";", NL]
            if fid == "tdz":
                body += ["let", "tdzVar", "=", "1", ";", NL]
        else:
            call = calls[k - 1]
            inner = [S(k)] + call + [E(k)]
            if kinds[k] == "ctor":
                body = ["this", ".", "v", "="] + inner + [";", NL]
            else:
                body = ["const", "r%d" % k, "="] + inner + [";", NL, "return", "r%d" % k, ";", NL]
        toks, call, names, exp = frame_def(k, kinds[k], body)
        calls[k] = call
        exports[k] = exp
        pre = []
        if k > 0 and mod_of[k - 1] != m:
            pre = ["import", "{", exports[k - 1], "}", "from", "'./%s'" % os.path.basename(paths[mod_of[k - 1]]), ";", NL]
        # export when the caller lives in another module (the outermost frame lives in main)
        if k + 1 < d and mod_of[k + 1] != m:
            # (the exported declaration is the one named exports[k], which need not be the first of the tokens)
            at = next((i for i in range(len(toks) - 1) if toks[i] in ("class", "function", "const") and toks[i + 1] == exp), 0)
            toks = toks[:at] + ["export"] + toks[at:]
        streams[m] = streams[m] + pre + toks
        expected.append((names, paths[m], (m, k)))
    # top level in main
    top = ["const", "result", "=", S(d)] + calls[d - 1] + [E(d), ";", NL]
    streams[0] = streams[0] + top
    expected.append(([None, "<anonymous>", "<module>", "<main>"], paths[0], (0, d)))
    return [(paths[i], streams[i]) for i in range(nmod)], paths[0], expected, cls


def chain_shapes(tier):
    shapes = []
    depths = [1, 2, 3, 5] if tier == "quick" else [1, 2, 3, 4, 5, 8, 12]
    for d in depths:
        if d == 1:
            for kd in KINDS:
                shapes.append([kd])
        else:
            nrot = 3 if tier == "quick" else len(KINDS)
            for r in range(nrot):
                shapes.append([KINDS[(r + i * (1 + r % 3)) % len(KINDS)] for i in range(d)])
            shapes.append(["fn"] * d)
    out = []
    for sh in shapes:
        for nmod in ((1, 2) if tier == "quick" else (1, 2, 3)):
            if nmod > len(sh):
                continue
            out.append((sh, nmod))
    return out


def layouts(tier):
    bases = ["single", "line", "tokline", "blank"]
    nls = ["\n", "\r\n", "\r", "\u2028"]
    comments = ["none", "block", "line", "mlblock"]
    alls = [Layout(b, n, c, w, t, ind) for b in bases for n in nls for c in comments for w in (False, True) for t in (False, True) for ind in ("space", "tab")]
    if tier != "quick":
        return alls
    # quick: every value of every dimension paired with every value of every other dimension at least once (pairwise cover, greedy)
    dims = [bases, nls, comments, (False, True), (False, True), ("space", "tab")]
    need = set()
    for i in range(len(dims)):
        for j in range(i + 1, len(dims)):
            for a in dims[i]:
                for b in dims[j]:
                    need.add((i, a, j, b))
    chosen = []
    cands = alls
    while need:
        best, bc = None, -1
        for l in cands:
            v = (l.base, l.nl, l.comment, l.wide, l.tpl, l.indent)
            c = sum(1 for (i, a, j, b) in need if v[i] == a and v[j] == b)
            if c > bc:
                best, bc = l, c
        v = (best.base, best.nl, best.comment, best.wide, best.tpl, best.indent)
        need = {(i, a, j, b) for (i, a, j, b) in need if not (v[i] == a and v[j] == b)}
        chosen.append(best)
    return chosen


# --------------------------------------------------------------------------- syntax faults
# (id, prefix statements, bad statement stream with S(0)/E(0) around the offending token or expression)
SYNTAX = [
    ("missing-operand", ["var", "a", "=", "1", "+", S(0), ";", E(0), NL]),
    ("stray-paren", ["var", "a", "=", "1", S(0), ")", E(0), ";", NL]),
    ("stray-bracket", ["var", "a", "=", "1", S(0), "]", E(0), ";", NL]),
    ("bad-binding", ["var", S(0), "=", E(0), "5", ";", NL]),
    ("keyword-as-name", ["var", S(0), "class", E(0), "=", "1", ";", NL]),
    ("missing-paren", ["if", "(", "a", S(0), "{", E(0), "}", NL]),
    ("double-operator", ["var", "a", "=", "1", "*", S(0), "%", E(0), "2", ";", NL]),
    ("bad-assign-target", ["var", "a", ";", NL, S(0), "1", "=", "2", E(0), ";", NL]),
    ("bad-arrow-params", ["var", "f", "=", "(", "a", ",", S(0), "1", ")", "=>", E(0), "a", ";", NL]),
    ("unterminated-string", ["var", "s", "=", S(0), ("RAW", "'abc"), E(0), NL, "var", "after", "=", "1", ";", NL]),
    ("unterminated-template", ["var", "s", "=", S(0), ("RAW", "`abc"), NL, "var", "after", "=", "1", ";", NL, S(1)]),
    ("unterminated-regex", ["var", "r", "=", S(0), ("RAW", "/ab"), E(0), NL, "var", "after", "=", "1", ";", NL]),
    ("unterminated-comment", ["var", "a", "=", "1", ";", NL, S(0), ("RAW", "/* never closed"), NL, "var", "after", "=", "1", ";", NL, S(1)]),
    ("unclosed-brace-eof", ["function", "g", "(", ")", "{", NL, "return", "1", ";", NL, S(0)]),
    ("unclosed-paren-eof", ["var", "a", "=", "(", "1", "+", "2", NL, S(0)]),
    ("bad-class-member", ["class", "Q", "{", NL, S(0), "+", E(0), ";", NL, "}", NL]),
    ("bad-class-name", ["class", S(0), "5", E(0), "{", "}", NL]),
    ("invalid-char", ["var", "a", "=", S(0), "#", ";", E(0), NL]),
    ("return-type-garbage", ["function", "h", "(", ")", ":", S(0), ")", E(0), "{", "}", NL]),
]
PREFIXES = {
    "none": [],
    "decls": ["var", "p1", "=", "1", ";", NL, "function", "pf", "(", "x", ":", "number", ")", "{", NL, "return", "x", "+", "1", ";", NL, "}", NL, "const", "ps", "=", "'str'", ";", NL],
    "nested": ["class", "PC", "{", NL, "pm", "(", ")", "{", NL, "return", "[", "1", ",", "2", "]", ".", "map", "(", "q", "=>", "q", "*", "2", ")", ";", NL, "}", NL, "}", NL],
}
WRAPS = {
    "top": lambda b: b,
    "in-function": lambda b: ["function", "wrapper", "(", ")", "{", NL] + b + ["}", NL],
    "in-class-method": lambda b: ["class", "W", "{", NL, "wm", "(", ")", "{", NL] + b + ["}", NL, "}", NL],
    "in-arrow": lambda b: ["const", "wa", "=", "(", ")", "=>", "{", NL] + b + ["}", ";", NL],
}


def tok_text(t):
    return t[1] if isinstance(t, tuple) and t[0] == "RAW" else t


def flatten(stream):
    return [tok_text(t) if not (isinstance(t, tuple) and t[0] in ("S", "E", "NL")) else t for t in stream]


# --------------------------------------------------------------------------- checking
def inside(pos, rng, eof_ok=False):
    (s, e) = rng
    if e is None:
        return False
    if s == e:
        return pos == s
    return s <= pos < e


def check_runtime(o, expected, ranges_by_mod, cls):
    """returns list of (aspect, detail) problems"""
    probs = []
    if o.get("status") != "err":
        return [("no-error", "status=%s" % o.get("status"))]
    err = o["error"]
    if err.get("class") != cls:
        probs.append(("error-class", "%s instead of %s" % (err.get("class"), cls)))
    stack = err.get("stack")
    if stack is None:
        loc = err.get("loc")
        if loc is None:
            return probs + [("no-position", "error carries neither location nor stack")]
        names, f, (m, k) = expected[0]
        if not inside((loc["line"], loc["column"]), ranges_by_mod[m][k]):
            probs.append(("innermost-position", "%d:%d not in %s" % (loc["line"], loc["column"], ranges_by_mod[m][k])))
        return probs
    if len(stack) == 0:
        return probs + [("no-position", "empty stack")]
    if len(stack) != len(expected):
        probs.append(("frame-count", "%d frames reported, %d active: %s" % (len(stack), len(expected), [fr.get("fn") for fr in stack])))
    # innermost frame always comparable
    for idx, fr in enumerate(stack):
        if idx >= len(expected):
            break
        if len(stack) != len(expected) and idx > 0:
            break
        names, f, (m, k) = expected[idx]
        what = "innermost-position" if idx == 0 else "call-site-position"
        if fr.get("file") != f:
            probs.append(("frame-file", "frame %d names %s, expected %s" % (idx, fr.get("file"), f)))
            continue
        if not inside((fr["line"], fr["column"]), ranges_by_mod[m][k]):
            probs.append((what, "frame %d at %d:%d, expected inside %s" % (idx, fr["line"], fr["column"], ranges_by_mod[m][k])))
        if fr.get("fn") not in names:
            probs.append(("frame-name", "frame %d named %r, expected one of %r" % (idx, fr.get("fn"), names)))
    return probs


def runtime_cases(tier):
    """yields (case id, harness case, expected, ranges, cls, meta)"""
    lays = layouts(tier)
    shapes = chain_shapes(tier)
    out = []
    # 1. every fault x context x kind of innermost frame, one layout rotation ; 2. every shape x layout with rotating fault/context
    ctxs = list(CONTEXTS)
    li = 0
    for fi, fault in enumerate(FAULTS):
        for ci, ctx in enumerate(ctxs):
            for ki, kd in enumerate(KINDS):
                for rep in range(1 if tier == "quick" else 4):
                    lay = lays[li % len(lays)]
                    li += 7
                    out.append(mk_runtime(fault, ctx, [kd, "fn"], 1, lay))
    n = 0
    for si, (sh, nmod) in enumerate(shapes):
        for lj, lay in enumerate(lays):
            fault = FAULTS[(si + lj) % len(FAULTS)]
            ctx = ctxs[(si * 3 + lj) % len(ctxs)]
            out.append(mk_runtime(fault, ctx, sh, nmod, lay))
            n += 1
    seen = set()
    res = []
    for c in out:
        if c[0] in seen:
            continue
        seen.add(c[0])
        res.append(c)
    return res


def mk_runtime(fault, ctx, kinds, nmod, lay):
    mods, main, expected, cls = runtime_program(fault, ctx, kinds, nmod, lay.tpl)
    rendered = []
    ranges_by_mod = {}
    for i, (path, stream) in enumerate(mods):
        text, ranges = render(flatten(stream), lay)
        rendered.append((path, text))
        ranges_by_mod[i] = ranges
    cid = "rt|%s|%s|%s|m%d|%s" % (fault[0], ctx, ",".join(kinds), nmod, lay.id())
    case = {"id": cid, "src": rendered[0][1], "path": main, "modules": [[p, t] for p, t in rendered[1:]]}
    meta = {"family": "runtime", "fault": fault[0], "ctx": ctx, "kinds": kinds, "nmod": nmod, "layout": lay.id()}
    return cid, case, expected, ranges_by_mod, cls, meta


def syntax_cases(tier):
    lays = layouts(tier)
    out = []
    li = 0
    for sid, bad in SYNTAX:
        for pname, pre in PREFIXES.items():
            for wname, wrap in WRAPS.items():
                eofish = sid.startswith("unclosed") or sid.startswith("unterminated-template") or sid.startswith("unterminated-comment")
                if eofish and wname != "top":
                    continue
                for where in ("main", "module"):
                    lsel = lays if tier != "quick" else [lays[(li + j * 5) % len(lays)] for j in range(3)]
                    li += 1
                    for lay in lsel:
                        if sid in ("unterminated-string", "unterminated-regex") and lay.base == "single":
                            continue    # needs a line break to be unterminated
                        stream = pre + wrap(list(bad))
                        text, ranges = render(flatten(stream), lay)
                        cid = "syn|%s|%s|%s|%s|%s" % (sid, pname, wname, where, lay.id())
                        if where == "main":
                            case = {"id": cid, "src": text, "path": "/p/main.ts", "modules": []}
                        else:
                            case = {"id": cid, "src": "import { zz } from './bad.ts';\nzz;", "path": "/p/main.ts", "modules": [["/p/bad.ts", text]]}
                        out.append((cid, case, ranges, {"family": "syntax", "fault": sid, "prefix": pname, "wrap": wname, "where": where, "layout": lay.id()}))
    return out


def check_syntax(o, ranges, meta):
    if o.get("status") != "err" or o["error"].get("class") != "SyntaxError":
        return None     # tsrun does not reject this text as a syntax error: nothing for C20 to check (C05's business)
    loc = o["error"].get("loc")
    if loc is None:
        return [("no-position", "syntax error without location")]
    probs = []
    want_file = "/p/main.ts" if meta["where"] == "main" else "/p/bad.ts"
    if loc.get("file") not in (None, want_file):
        probs.append(("file", "names %s" % loc.get("file")))
    pos = (loc["line"], loc["column"])
    r0 = ranges[0]
    if r0[1] is None:
        # unterminated to end of input: the token runs from its start to the end of the file
        r0 = (r0[0], ranges[1][0])
        ok = r0[0] <= pos <= r0[1]
    else:
        ok = inside(pos, r0)
    if not ok:
        probs.append(("syntax-position", "%d:%d, offending token at %s" % (pos[0], pos[1], r0)))
    return probs


def lay_feats(lid):
    b, nl, cm, w, t, ind = lid.split("/")
    return {"base": b, "nl": nl, "comment": cm, "wide": w, "tpl": t, "indent": ind}


def cluster_of(meta, aspect, detail):
    lf = lay_feats(meta["layout"])
    if meta["family"] == "syntax":
        if aspect == "syntax-position":
            feats = []
            if lf["nl"] in ("cr",):
                feats.append("lone CR line ends")
            return "syntax error %s: position outside the offending token%s" % (meta["fault"], (" (" + ",".join(feats) + ")") if feats else "")
        return "syntax error %s: %s" % (meta["fault"], aspect)
    kinds = meta["kinds"]
    if aspect in ("frame-count", "frame-name"):
        nested = [k for k in kinds if k in ("getter",)]
        return "stack %s (%s)" % (aspect, "chain through " + ",".join(sorted(set(nested))) if nested else "trampolined chain: " + ",".join(sorted(set(kinds))))
    if aspect in ("innermost-position", "call-site-position"):
        f = []
        if lf["nl"] == "cr":
            f.append("lone CR")
        return "%s: fault %s in %s%s" % (aspect, meta["fault"], meta["ctx"], (" [" + ",".join(f) + "]") if f else "")
    return "%s: %s" % (aspect, meta["fault"])


def run(tier, seed):
    chk = core.Check(PID, tier, seed, "exploration")
    rcases = runtime_cases(tier)
    scases = syntax_cases(tier)
    res = core.run_batch([c[1] for c in rcases] + [c[1] for c in scases], sub_args=("c20",), hang_s=60)
    stats = {"runtime_programs": len(rcases), "syntax_programs": len(scases), "positions_checked": 0, "frames_checked": 0, "ok_programs": 0, "failing_programs": 0}
    aspects = {}
    distinct = set()
    for cid, case, expected, rbm, cls, meta in rcases:
        o = res[cid]
        probs = check_runtime(o, expected, rbm, cls)
        stats["positions_checked"] += len(expected)
        stats["frames_checked"] += len(expected)
        if not probs:
            stats["ok_programs"] += 1
            distinct.add((meta["fault"], meta["ctx"], tuple(meta["kinds"]), meta["nmod"]))
            continue
        stats["failing_programs"] += 1
        for aspect, detail in probs:
            aspects[aspect] = aspects.get(aspect, 0) + 1
            chk.fail(cid + "|" + aspect, detail[:200], "%s: %s: %s" % (cid, aspect, detail[:160]), {"family": "runtime", "id": cid, "tier": tier, "aspect": aspect}, cluster=cluster_of(meta, aspect, detail))
    for cid, case, ranges, meta in scases:
        o = res[cid]
        probs = check_syntax(o, ranges, meta)
        if probs is None:
            stats["syntax_not_rejected"] = stats.get("syntax_not_rejected", 0) + 1
            continue
        stats["positions_checked"] += 1
        if not probs:
            stats["ok_programs"] += 1
            distinct.add((meta["fault"], meta["wrap"], meta["where"]))
            continue
        stats["failing_programs"] += 1
        for aspect, detail in probs:
            aspects[aspect] = aspects.get(aspect, 0) + 1
            chk.fail(cid + "|" + aspect, detail[:200], "%s: %s: %s" % (cid, aspect, detail[:160]), {"family": "syntax", "id": cid, "tier": tier, "aspect": aspect}, cluster=cluster_of(meta, aspect, detail))
    stats["evaluations"] = len(rcases) + len(scases)
    stats["distinct_nontrivial"] = len(distinct)
    stats["problem_aspects"] = aspects
    stats["layouts"] = len(layouts(tier))
    stats["chain_shapes"] = len(chain_shapes(tier))
    stats["samples"] = [{"id": rcases[k][0], "src": rcases[k][1]["src"][:500]} for k in (len(rcases) // 2, len(rcases) // 7)] + [{"id": scases[len(scases) // 2][0], "src": scases[len(scases) // 2][1]["src"][:300]}]
    stats["rule"] = ("runtime: %d faults x %d fault contexts x %d innermost frame kinds, and %d chain shapes (depth up to %d, 8 frame kinds, frames spread over 1-3 modules) x %d layouts (4 bases x LF/CRLF/CR/LS x 4 comment modes x wide characters before the range x multi-line template before the fault x tab/space; quick = a greedy pairwise cover of the six layout dimensions); syntax: %d faults x 3 prefixes x 4 enclosing constructs x main/module x layouts. Oracle: positions inside generator-computed ranges (code points, 1-based), exact frame list with names."
                     % (len(FAULTS), len(CONTEXTS), len(KINDS), len(chain_shapes(tier)), 12 if tier != "quick" else 5, len(layouts(tier)), len(SYNTAX)))
    chk.coverage = stats
    chk.assumptions = ["columns are counted in code points, 1-based (what tsrun does on ASCII input; any other unit is reported as a violation on wide-character layouts)",
                       "for arrow / anonymous function expressions bound to a const either the inferred name or no name is accepted; for constructors the class name or 'constructor'",
                       "errors that carry neither a location nor a stack (explicit throw of a value) are outside the property and not generated"]
    return chk.finish(exhaustive=True)


def replay(path):
    rp = json.load(open(path))
    tier = rp.get("tier", "thorough")
    if rp["family"] == "runtime":
        for cid, case, expected, rbm, cls, meta in runtime_cases(tier):
            if cid == rp["id"]:
                o = core.run_batch([case], sub_args=("c20",))[cid]
                print(case["src"])
                for p, t in case["modules"]:
                    print("---- " + p + "\n" + t)
                print(json.dumps(o.get("error")))
                print("expected frames:", [(n, f, rbm[m][k]) for n, f, (m, k) in expected])
                probs = check_runtime(o, expected, rbm, cls)
                print(probs)
                if any(a == rp["aspect"] for a, _ in probs):
                    print("VIOLATION property=C20 replay=%s" % path)
                    return 1
                return 0
    else:
        for cid, case, ranges, meta in syntax_cases(tier):
            if cid == rp["id"]:
                o = core.run_batch([case], sub_args=("c20",))[cid]
                print(case["modules"][0][1] if case["modules"] else case["src"])
                print(json.dumps(o.get("error")), ranges)
                probs = check_syntax(o, ranges, meta)
                print(probs)
                if any(a == rp["aspect"] for a, _ in probs):
                    print("VIOLATION property=C20 replay=%s" % path)
                    return 1
                return 0
    raise core.MachineryError("case not found: " + rp["id"])
