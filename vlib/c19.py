"""C19 — all ways of running a program agree: eval() in one call, prepare()+step(), step() with host
reads (call_depth, gc_stats, export names, forced collections) between steps, the C API's tsrun_run and
tsrun_step; and the same module source as a host-provided dependency vs a registered internal source
module (and its export names as the main module)."""
import json, sys
from . import core, gen01, c02, c11

PID = "C19"
DEP = ["/p/dep.ts", "export let n = 1; export function inc(){ n++; return n; } export default function dflt(){ return 'D' + n; } export const obj = {k:[1,2]};"]
DEP2 = ["/p/lib/util.ts", "import { n } from '../dep.ts'; export const twice = n * 2; export function hello(x){ return 'hi ' + x; }"]

MODULES = {
    "exports-basic": "export const k = 5; export let m = k * 2; export function f(){ return m; } export class C { static s = 1; } m",
    "exports-default-fn": "export default function d(){ return 'D'; } export const after = 1;",
    "exports-default-expr": "const cfg = {a:[1,{b:2}]}; export default cfg; export const copy = JSON.stringify(cfg);",
    "exports-default-class": "export default class K { m(){ return 1; } } export const inst = new K().m();",
    "exports-renamed": "const a = 1; let b = 2; function g(){ return b; } export { a as first, b as second, g }; b = 3;",
    "exports-live": "export let counter = 0; export function bump(){ counter++; return counter; } bump(); bump();",
    "exports-destructured": "export const {x, y: [z]} = {x: 1, y: [2]}; export const [p, ...q] = [3, 4, 5];",
    "import-named": "import { n, inc } from './dep.ts'; inc(); export const r = n; r",
    "import-default-ns": "import dflt, * as ns from './dep.ts'; export const r = dflt() + Object.keys(ns).sort().join(); r",
    "import-chain": "import { twice, hello } from './lib/util.ts'; export const out = hello(twice); out",
    "reexport-named": "export { n as count, inc } from './dep.ts'; export const own = 1;",
    "reexport-star": "export * from './dep.ts'; export const own = 2;",
    "reexport-ns": "export * as dep from './dep.ts';",
    "order-export": "import { order } from 'tsrun:host'; const v = await order({q: 1}); export const got = v; console.log('L' + got); got",
    "order-twice": "import { order } from 'tsrun:host'; const a = await order('a'); const b = await order('b'); export const both = a + b; both",
    "order-in-fn": "import { order } from 'tsrun:host'; async function f(k){ const v = await order(k); return v + '!'; } export const r1 = await f(1); export const r2 = await f(2); r1 + r2",
    "order-all": "import { order } from 'tsrun:host'; const rs = await Promise.all([order(1), order(2)]); export const joined = rs.join(); joined",
    "order-cancel-race": "import { order } from 'tsrun:host'; const w = await Promise.race([order('x'), order('y')]); export const winner = w; winner",
    "throws-after-export": "export const z = 1; export function f(){ return z; } throw new Error('boom');",
    "throws-typeerror": "export const z = 1; null.x;",
    "syntax-error": "export const = 1;",
    "missing-import": "import { nope } from './absent.ts'; nope",
    "import-missing-name": "import { doesNotExist } from './dep.ts'; export const v = typeof doesNotExist; v",
    "top-level-await-promise": "const v = await Promise.resolve(41); export const w = v + 1; w",
    "async-fn-exports": "export async function af(){ await null; return 7; } export const p = af(); const got = await p; got",
    "generator-export": "export function* g(){ yield 1; yield 2; } export const all = [...g()]; all.length",
    "enum-namespace": "export enum E { A, B = 5, C } export namespace N { export const v = E.C; } N.v",
    "console-order": "console.log('a'); export const x = (console.log('b'), 1); console.log('c'); x",
    "side-effect-import": "import './dep.ts'; export const done = true; done",
    # first suspension is an await on a promise of the host's (not an order): eval() must hand the run over to step()
    "hostpromise-first": "export let phase = 'start'; const who = await hostP; phase = 'prod'; export const greeting = 'hello ' + phase + who; greeting",
    "hostpromise-then-order": "import { order } from 'tsrun:host'; export let phase = 'a'; const w = await hostP; const v = await order('x'); phase = 'b'; export const both = w + v + phase; both",
    "order-then-hostpromise": "import { order } from 'tsrun:host'; const v = await order('x'); export let phase = 'a'; const w = await hostP; phase = 'b'; export const both = v + w + phase; both",
    "hostpromise-in-async-fn": "export const tag = 'T'; async function f(){ const w = await hostP; return tag + w; } export const r = await f(); r",
    "hostpromise-with-import": "import { n, inc } from './dep.ts'; const w = await hostP; inc(); export const r = w + n; r",
    # deferred answers (marker /*defer*/): the host answers every order with a promise of its own and settles those
    # promises later, oldest first, one per Suspended that has nothing new pending; cancellations must be reported
    # identically by every entry point
    "defer-order": "/*defer*/ import { order } from 'tsrun:host'; const v = await order('a'); export const got = v; got",
    "defer-two-sequential": "/*defer*/ import { order } from 'tsrun:host'; const a = await order('a'); const b = await order('b'); export const both = a + b; both",
    "defer-all": "/*defer*/ import { order } from 'tsrun:host'; const rs = await Promise.all([order(1), order(2), order(3)]); export const joined = rs.join(); joined",
    "defer-race": "/*defer*/ import { order } from 'tsrun:host'; const w = await Promise.race([order('x'), order('y')]); export const winner = w; winner",
    "defer-race-then-await-pending": "/*defer*/ import { order } from 'tsrun:host'; const pa = order('a'), pb = order('b'), pc = order('c'); const r = await Promise.race([pa, pb]); const c = await pc; export const out = r + c; out",
    "defer-race-3-then-await-pending": "/*defer*/ import { order } from 'tsrun:host'; const ps = [order('a'), order('b'), order('c')], pd = order('d'); const r = await Promise.race(ps); const d = await pd; export const out = r + d; out",
    "defer-race-in-fn-then-await": "/*defer*/ import { order } from 'tsrun:host'; async function f(){ const pa = order('a'), pb = order('b'); return await Promise.race([pa, pb]); } const pc = order('c'); const r = await f(); export const out = r + await pc; out",
    "defer-race-then-order": "/*defer*/ import { order } from 'tsrun:host'; const r = await Promise.race([order('a'), order('b')]); const c = await order('c'); export const out = r + c; out",
    "defer-two-races": "/*defer*/ import { order } from 'tsrun:host'; const pe = order('e'); const r1 = await Promise.race([order('a'), order('b')]); const r2 = await Promise.race([order('c'), order('d')]); export const out = r1 + r2 + await pe; out",
    "dynamic-values": "export const now = typeof Date.now(); export const rnd = Math.random() < 1; export const big = 2 ** 40;",
}


def programs(tier):
    out = []
    mods = [DEP, DEP2]
    for k, s in MODULES.items():
        out.append({"id": "module|" + k, "src": s, "path": "/p/main.ts", "modules": mods, "roles": "order" not in k and "missing" not in k and "syntax" not in k and "./" not in s and "hostP" not in s})
    out.append({"id": "script|hostpromise-first", "src": "var phase = 'start'; const who = await hostP; phase = 'prod'; 'hello ' + phase + who"})
    out.append({"id": "script|hostpromise-in-fn", "src": "async function f(){ const w = await hostP; return 'f' + w; } await f()"})
    for k, a in c11.A_PROGRAMS.items():
        a = c11.mk(a)
        out.append({"id": "a|" + k, "src": a["src"], "path": a.get("path"), "modules": a.get("modules", [])})
    for name, expr in list(c02.NATIVES.items())[:: (3 if tier == "quick" else 1)]:
        out.append({"id": "native|" + name, "src": c02.PRE + expr})
    for f in ["class", "pattern", "gen", "scope", "flow2", "lib", "forms"]:
        cs = [c for c in gen01.FAMILIES[f]() if c.quick]
        stride = max(1, len(cs) // (40 if tier == "quick" else 400))
        for c in cs[::stride]:
            out.append({"id": "c01|" + c.id, "src": c.src})
    return out


ENTRY = ["eval", "step", "step+reads", "c-run", "c-step"]


def run(tier, seed):
    chk = core.Check(PID, tier, seed, "exploration")
    cases = programs(tier)
    res = core.run_batch(cases, sub_args=("c19",), hang_s=120, as_gb=2)
    total = 0
    fam = {}
    distinct = set()
    for c in cases:
        o = res[c["id"]]
        kind = c["id"].split("|")[0]
        f = fam.setdefault(kind, {"programs": 0, "disagreeing": 0})
        f["programs"] += 1
        name = c["id"].split("|", 1)[1]
        if o.get("status") != "ok":
            f["disagreeing"] += 1
            chk.fail("proc|" + c["id"] + c["src"], str(o.get("status")), "%s: worker %s" % (c["id"], o.get("status")), {"case": c}, cluster="process-level failure: " + name[:40])
            continue
        ref = o["step"]
        total += len(ENTRY)
        distinct.add(ref)
        diffs = [(e, o[e]) for e in ENTRY if o[e] != ref]
        if diffs:
            f["disagreeing"] += 1
            e, got = diffs[0]
            chk.fail("entry|" + json.dumps(c, sort_keys=True), "|".join("%s:%s" % (e, core.sha(g, 6)) for e, g in diffs),
                     "%s: entry point %s gives %s, prepare()+step() gives %s%s" % (c["id"], e, got[:200], ref[:200], " (also differing: %s)" % ",".join(x for x, _ in diffs[1:]) if len(diffs) > 1 else ""),
                     {"case": c}, cluster="entry points disagree (%s): %s" % ("+".join(sorted(x for x, _ in diffs)), name[:40] if kind == "module" else kind))
        if c.get("roles"):
            total += 2
            if o["role-dependency"] != o["role-internal"]:
                f["disagreeing"] += 1
                chk.fail("role|" + json.dumps(c, sort_keys=True), core.sha(o["role-internal"], 8), "%s: as host-provided dependency %s, as internal source module %s" % (c["id"], o["role-dependency"][:200], o["role-internal"][:200]),
                         {"case": c}, cluster="module roles disagree (dependency vs internal source): " + name[:40])
            # export names as main module must match the namespace seen by an importer
            try:
                seen = sorted(x[0] for x in json.loads(o["role-dependency"].split("|")[1][2:])) if o["role-dependency"].startswith("ok|s:") else None
                main = json.loads(o["role-main-names"].split("|")[1].replace("'", '"')) if o["role-main-names"].startswith("ok|") else None
            except Exception:
                seen = main = None
            if seen is not None and main is not None and seen != sorted(main):
                f["disagreeing"] += 1
                chk.fail("rolemain|" + json.dumps(c, sort_keys=True), ",".join(sorted(main)), "%s: export names as main module %s, namespace seen by an importer %s" % (c["id"], sorted(main), seen),
                         {"case": c}, cluster="module roles disagree (main vs dependency export names): " + name[:40])
    chk.coverage = {"evaluations": total, "distinct_nontrivial": len(distinct), "families": fam, "programs": len(cases), "entry_points": ENTRY,
                    "samples": [{"id": cases[13]["id"], "src": cases[13]["src"]}, {"id": cases[-1]["id"]}],
                    "rule": "every program of the corpus (30 module programs with imports/re-exports/orders/errors, the C11 fault programs, C02 allocating-native templates, a slice of the C01 families) is run through all five entry points; the full observation (status, completion value, error class, console lines, trace of NeedImports/Suspended results with ids, export table) must be identical; module programs are additionally run as provided dependency and as internal source module; non-trivial = distinct observations"}
    chk.assumptions = ["the host answers orders immediately with 'v<id>' (or, in the defer-* programs, with a promise of its own that it settles later, oldest first) and supplies requested modules at once in every entry point", "error messages are not compared, only classes"]
    return chk.finish(exhaustive=True)


def replay(path):
    rp = json.load(open(path))
    c = rp["case"]
    o = core.run_batch([c], sub_args=("c19",), hang_s=120, as_gb=2)[c["id"]]
    for k, v in o.items():
        if k not in ("id", "status"):
            print("%-16s %s" % (k, str(v)[:300]))
    if o.get("status") != "ok" or any(o[e] != o["step"] for e in ENTRY) or (c.get("roles") and o["role-dependency"] != o["role-internal"]):
        print("VIOLATION property=C19 replay=%s" % path)
        return 1
    return 0
