"""Program-family plumbing shared by the program-based checks (C01, C02, C07, ...):
wrappers around the canonical printer, case identity, golden tables in enumeration order."""
import hashlib, json, os, subprocess, sys, zlib
from . import core

PRINTER = open(os.path.join(os.path.dirname(__file__), "js", "printer.js")).read()
NODE = os.environ.get("VERIF_NODE", "/root/.nvm/versions/node/v20.20.2/bin/node")


def wrap_fn(body):
    """body is a function body that returns the value to observe."""
    return PRINTER + "\nvar __r; try { __r = __s((function(){\n" + body + "\n})()); } catch (e) { __r = __cls(e); }\n__r"


def wrap_expr(decls, expr):
    return PRINTER + "\nvar __r; try { " + decls + " __r = __s(" + expr + "); } catch (e) { __r = __cls(e); }\n__r"


def wrap_top(body):
    """body runs at top level and assigns __v (or throws)."""
    return PRINTER + "\nvar __v; var __r;\ntry {\n" + body + "\n__r = __s(__v); } catch (e) { __r = __cls(e); }\n__r"


class Case:
    __slots__ = ("id", "src", "quick", "extra")

    def __init__(self, id, src, quick=True, extra=None):
        self.id, self.src, self.quick, self.extra = id, src, quick, extra or {}

    def key(self, family):
        return core.sha(family + "\0" + self.src)


def golden_path(name):
    return os.path.join(core.ROOT, "golden", name + ".gz")


def list_digest(family, cases):
    h = hashlib.sha256()
    for c in cases:
        h.update(c.key(family).encode())
    return h.hexdigest()


def write_golden(name, family, cases, obs):
    """obs: list of core observation strings in enumeration order."""
    hdr = json.dumps({"family": family, "count": len(cases), "digest": list_digest(family, cases)})
    data = (hdr + "\n" + "\n".join(o.replace("\n", "\\n") for o in obs) + "\n").encode("utf-8", "surrogatepass")
    os.makedirs(os.path.dirname(golden_path(name)), exist_ok=True)
    with open(golden_path(name), "wb") as f:
        f.write(zlib.compress(data, 9))


def read_golden(name, family, cases):
    p = golden_path(name)
    if not os.path.exists(p):
        raise core.MachineryError("golden table missing: %s (run tools/regen_golden.py)" % p)
    lines = zlib.decompress(open(p, "rb").read()).decode("utf-8", "surrogatepass").split("\n")
    hdr = json.loads(lines[0])
    if hdr["count"] != len(cases) or hdr["digest"] != list_digest(family, cases):
        raise core.MachineryError("golden table %s does not match the regenerated case list (count %d vs %d); regenerate it" % (name, hdr["count"], len(cases)))
    return lines[1:1 + len(cases)]


ALT = "\x1f"


def golden_match(got, gold):
    """gold may hold two alternatives (sloppy / strict mode of the reference engine) when the program is
    mode-dependent; tsrun does not document which mode it implements, so either is accepted."""
    gold = gold.replace("\\n", "\n")
    got = got.replace("\\n", "\n")
    return any(got == g for g in gold.split(ALT))


def node_run(cases, nworkers=16):
    """Both modes of the reference engine; mode-dependent cases get 'sloppy<US>strict'."""
    a = node_run1(cases, "", nworkers)
    b = node_run1(cases, '"use strict";\n', nworkers)
    return [x if x == y else x + ALT + y for x, y in zip(a, b)]


def node_run1(cases, prefix, nworkers=16):
    """Reference engine: returns list of core observation strings (needs node; tools only)."""
    if not os.path.exists(NODE):
        raise core.MachineryError("node not available at " + NODE)
    shards = [cases[i::nworkers] for i in range(nworkers)]
    procs = []
    for sh in shards:
        p = subprocess.Popen([NODE, os.path.join(core.ROOT, "tools", "noderun.js")], stdin=subprocess.PIPE, stdout=subprocess.PIPE, text=True)
        procs.append(p)
    import threading
    outs = [None] * nworkers

    def go(i):
        inp = "".join(json.dumps({"id": c.id, "src": prefix + c.src}) + "\n" for c in shards[i])
        outs[i] = procs[i].communicate(inp)[0]
    ths = [threading.Thread(target=go, args=(i,)) for i in range(nworkers)]
    [t.start() for t in ths]
    [t.join() for t in ths]
    res = {}
    for o in outs:
        for line in o.splitlines():
            d = json.loads(line)
            res[d["id"]] = core.obs_core(d)
    if len(res) != len(cases):
        raise core.MachineryError("node lost results: %d of %d" % (len(res), len(cases)))
    return [res[c.id] for c in cases]


def tsrun_run(cases, extra=None, profile="chk", budget=200000):
    """Run on tsrun through the worker pool; returns {id: obs dict}."""
    batch = []
    for c in cases:
        d = {"id": c.id, "src": c.src, "budget": budget}
        if extra:
            d.update(extra)
        if c.extra:
            d.update(c.extra)
        batch.append(d)
    return core.run_batch(batch, profile=profile)
