"""C03 — TypeScript type syntax is erased: annotations never change behaviour.
Corpus of program templates with typed holes (so every syntactic position is known by construction); P fills
every hole with nothing, D fills chosen holes from the alphabet of the hole's kind. Enumeration: every
(hole, type) one at a time, all holes at once with rotating types, and (thorough) every pair of holes.
Oracle: P and D(P) are both accepted and give identical value, output and errors in fresh interpreters."""
import itertools, json, re, sys
from . import core, prog

PID = "C03"

TYPES = [
    "number", "string", "boolean", "any", "unknown", "void", "never", "null", "undefined", "object", "symbol", "bigint",
    "'lit'", "42", "true", "-1", "string[]", "Array<number>", "readonly string[]", "ReadonlyArray<string>", "[number, string]", "[a: number, b?: string]", "[number, string?]", "[number, ...string[]]",
    "number | string", "| 'a' | 'b'", "A0 & B0", "(number | string)[]", "(x: number) => string", "() => void", "(a: number, ...r: string[]) => void", "new (x: number) => A0", "abstract new () => object",
    "{ a: number; b?: string }", "{ a: number, b: string, }", "{ readonly [k: string]: number }", "{ (x: number): string }", "{ m(): void; readonly p: number }", "{ new (x: number): A0 }", "{ get g(): number; set g(v: number) }",
    "Record<string, number>", "Map<string, number[]>", "Promise<void>", "Array<Array<number>>", "Map<string, Map<string, Array<number>>>", "keyof A0", "typeof v0", "typeof v0.a", "A0['a']", "A0['a' | 'b']", "A0[keyof A0]",
    "A0 extends string ? 1 : 2", "A0 extends (infer U)[] ? U : never", "A0 extends { a: infer Q extends number } ? Q : never", "{ [K in keyof A0]: A0[K] }", "{ readonly [K in 'a' | 'b']?: K }", "{ -readonly [K in keyof A0]-?: A0[K] }", "{ [K in keyof A0 as `get${K & string}`]: A0[K] }",
    "`pre-${string}`", "`${number}px`", "Uppercase<'a'>", "Partial<A0>", "Pick<A0, 'a'>", "ReturnType<typeof f0>", "NonNullable<A0['a']>", "A0 | undefined | null", "((x: number) => void) | null", "Array<(x: number) => void>",
    "{ a: { b: { c: number[] }[] } }", "(typeof v0)[]", "readonly [x: number, y?: number]", "() => () => () => void", "<U>(x: U) => U", "<U extends A0 = A0>(x: U) => U['a']", "import('./x').T",
]
# operator structure: every union/intersection shape over 2 and 3 operands (precedence, grouping, leading bars),
# and the unary / postfix / arrow contexts a binary type can sit in
_ATOMS = ["number", "A0", "'a'", "{ a: number }", "string[]"]


def _binary_types():
    out = []
    a, b, c = _ATOMS[0], _ATOMS[1], _ATOMS[2]
    for x, y in (("|", "|"), ("|", "&"), ("&", "|"), ("&", "&")):
        out.append("%s %s %s %s %s" % (a, x, b, y, c))
        out.append("(%s %s %s) %s %s" % (a, x, b, y, c))
        out.append("%s %s (%s %s %s)" % (a, x, b, y, c))
    for i, p in enumerate(_ATOMS):
        q = _ATOMS[(i + 1) % len(_ATOMS)]
        r = _ATOMS[(i + 2) % len(_ATOMS)]
        out += ["%s | %s & %s" % (p, q, r), "%s & %s | %s & %s" % (p, q, r, p), "| %s & %s | %s" % (p, q, r), "& %s & %s" % (p, q)]
    out += ["keyof A0 & string", "keyof (A0 | B0)", "(A0 | B0)['a' & string]", "() => number | string & A0", "(x: number | string & A0) => void", "Array<number | string & A0>", "[number | string & A0, A0 & B0 | null]",
            "{ a: number | string & A0 }", "A0 | B0 & { c: true } | null", "A0 extends B0 | A0 & B0 ? A0 & B0 : A0 | B0", "(number | string)[] | A0 & B0", "readonly (A0 & B0)[] | undefined", "typeof v0 | A0 & B0", "`${'a' | 'b' & string}`"]
    seen = []
    for t in out:
        if t not in seen:
            seen.append(t)
    return seen


TYPES = TYPES + [t for t in _binary_types() if t not in TYPES]
RET_ONLY = ["x is string", "asserts x is string", "this is A0", "asserts x", "this", "Promise<[number, string]>", "asserts this is A0", "asserts this"]
TPARAMS = ["<T>", "<T, U>", "<T extends A0>", "<T extends keyof A0 = 'a'>", "<const T>", "<T = {}>", "<in out T>", "<T extends (...a: any[]) => any>", "<T extends readonly unknown[]>", "<T,>"]
TARGS = ["<number>", "<A0>", "<string, number>", "<Array<number>>", "<Map<string, Array<number>>>", "<{ a: number }>", "<typeof v0>", "<'a' | 'b'>", "<[number, string]>", "<(x: number) => void>"]
MODS = ["public", "private", "protected", "readonly", "public readonly", "private readonly", "protected readonly", "override", "public override"]
MODM = ["public", "private", "protected", "override", "public override", "protected override"]
STMTS = [
    "interface I0 { a: number; m(x: string): void; readonly [k: string]: unknown }", "interface I1<T> extends I0 { b?: T }", "interface I2 { (x: number): string; new (x: number): I2 }",
    "type T0 = number | string;", "type T1<K extends string = 'a'> = { [P in K]: number };", "type T2 = typeof v0;", "type Fn = (a: number, b?: string) => void;", "type Rec<T> = T extends object ? { [K in keyof T]: Rec<T[K]> } : T;",
    "declare const dc: number;", "declare let dl: string, dl2: number;", "declare function df(x: number): string;", "declare function df2<T>(x: T): T;", "declare class DC { m(): void; static s: number }", "declare namespace DN { const v: number; function f(): void }",
    "declare module 'amb' { export const x: number; }", "declare global { interface Window { w: number } }", "declare enum DE { A, B }", "declare var dv: any;", "declare type DT = number;", "declare interface DI { a: 1 }", "declare abstract class DAC { abstract m(): void }",
    "function ov(x: number): number;\nfunction ov(x: string): string;\nfunction ov(x: any) { return x; }", "import type { IT } from './types';", "import type DefT from './types';", "import type * as NST from './types';", "import { type IT2 } from './types';",
    "export type { T0x } from './types';", "export type ET = number;", "export interface EI { a: number }", "type U1 = [first: string, second?: number];", "type Tpl = `${'a' | 'b'}-${number}`;", "abstract class AC0 { abstract m(): void; }",
    "type G = Array<Array<Array<number>>>;", "type C = A0 extends infer X ? X : never;", "interface I3 { get g(): number; set g(v: number); }", "type Ctor = abstract new (...a: any[]) => object;", "type Neg = -1 | -2n;", "type Fnr = { (x: number): string }['call'];",
]
PRE = "type A0 = { a: number; b: string }; type B0 = { c: boolean }; const v0 = { a: 1 }; function f0() { return 1; }\n"
# note: PRE itself is erasable syntax + two declarations; programs never use its runtime names in a way that matters

TEMPLATES = {
    "var-decl": "let x@ann@ = 5; const y@ann@ = 'a'; var z@ann@; x + y + z",
    "var-destructure": "const { a, b }@ann@ = { a: 1, b: [2] }; const [p, q]@ann@ = [3, 4]; a + b[0] + p + q",
    "fn-decl": "function f@tparams@(a@ann@, b@ann@ = 2, ...r@ann@)@ret@ { return a + b + r.length; } f@targs@(1) + f(1, 2, 3, 4)",
    "fn-optional-param": "function f(a@ann@, b@opt@@ann@)@ret@ { return a + (b === undefined ? 'u' : b); } f(1) + f(1, 2)",
    "fn-expr": "const f = function@tparams@(a@ann@)@ret@ { return a * 2; }; f@targs@(4)",
    "arrow": "const f = @tparams@(a@ann@, b@ann@)@ret@ => a + b; const g = async (x@ann@)@ret@ => x; f@targs@(1, 2) + typeof g(1).then",
    "arrow-single": "const xs = [1, 2, 3].map((v@ann@, i@ann@)@ret@ => v * i); xs.join()",
    "arrow-body-object": "const f = (a@ann@)@ret@ => ({ a }); f(3).a",
    "call-chain": "const o = { m@tparams@(x@ann@)@ret@ { return { n: (y@ann@) => x + y }; } }; o.m@targs@(1).n(2)",
    "method-call-generic": "const m = new Map@targs@(); m.set('a', 1); const s = new Set@targs@([1, 2]); const a = new Array@targs@(3); m.size + s.size + a.length",
    "class-basic": "class C@tparams@ { @mod@ x@ann@ = 1; @mod@ y@opt@@ann@; constructor(a@ann@) { this.y = a; } @modm@ m@tparams@(b@ann@)@ret@ { return this.x + this.y + b; } } new C@targs@(2).m@targs@(3)",
    "class-static-accessors": "class C { @modm@ static s@ann@ = 2; @modm@ static sm(v@ann@)@ret@ { return C.s * v; } get g()@ret@ { return 'g'; } set g(v@ann@) { this._v = v; } } const c = new C(); c.g = 5; C.sm(3) + c.g + c._v",
    "class-extends-implements": "class B@tparams@ { bx@ann@ = 1; } class D@tparams@ extends B@targs@ { dy@ann@ = 2; constructor() { super(); } sum()@ret@ { return this.bx + this.dy; } } new D().sum()",
    "class-private-index": "class C { #p@ann@ = 3; @mod@ q@ann@ = 4; gp()@ret@ { return this.#p + this.q; } } new C().gp()",
    "as-arith": "const a = 2, b = 3; (a@as@) + (b@as@) * 2",
    "as-member": "const o = { p: { q: [1, 2] } }; (o@as@).p.q[(1@as@)] + (o.p@as@).q.length",
    "as-call-arg": "function f(x, y) { return x + y; } f(1@as@, (2@as@))",
    "as-chain": "const v = '5'; ((v@as@)@as@).length + Number(v@as@)",
    "as-const": "const t = [1, 2] as const; const o = { k: 'v' } as const; t.length + o.k",
    "as-in-template": "const n = 3; `a${n@as@}b${(n@as@) + 1}c`",
    "as-comparison": "const a = 1, b = 2, c = 3; [(a@as@) < b, a < (b@as@), (a@as@) < (b@as@), a < b && b > (c@as@), (a@as@) > b].join()",
    "as-logical-ternary": "const a = 0, b = 'x'; const r = (a@as@) || (b@as@); const t = (a@as@) ? 1 : (b@as@); r + t",
    "as-unary-precedence": "const a = 4; [-a@as@, typeof a@as@, !a@as@, -(a@as@), (a@as@) ** 2].join()",
    "as-spread-array": "const xs = [1, 2]; const ys = [...(xs@as@), 3@as@]; const o = { ...({ k: 1 }@as@), j: 2@as@ }; ys.length + o.k + o.j",
    "as-return-arrow": "const f = (x) => x@as@; const g = (x) => (x@as@); function h(x) { return x@as@; } f(1) + g(2) + h(3)",
    "as-assignment-rhs": "let x; x = 5@as@; x += 2@as@; let y = (x@as@) > 6 ? 'big'@as@ : 'small'@as@; x + y",
    "angle-assert": "const v = 7; const w = @angle@v; const o = @angle@{ a: 1 }; const n = (@angle@v) + 1; w + o.a + n",
    "angle-vs-comparison": "const a = 1, b = 2, c = 3; const r1 = a < b; const r2 = a < b && b > c; const r3 = (a) < (b); const r4 = a < b || c > (a); [r1, r2, r3, r4].join()",
    "generic-call-vs-comparison": "function id(x) { return x; } const a = 1, b = 2; const r = [id@targs@(a), a < b, id(a) < id(b), id@targs@(a) > (b)]; r.join()",
    "nonnull": "const o = { a: { b: [1, 2] }, f() { return { g: 3 }; } }; o@bang@.a@bang@.b@bang@[0] + o.f@bang@()@bang@.g + o@bang@['a']@bang@.b.length",
    "nonnull-assign": "let m = { n: 1 }; m@bang@.n = 5; m@bang@.n++; const k = m@bang@; k.n + (m.n@bang@)",
    "nonnull-then-as": "const o = { a: 1 }; (o@bang@@as@).a + ((o.a)@bang@@as@)",
    "optional-chain-bang": "const o = { a: null, b: { c: 2 } }; [o.a?.x, o.b@bang@?.c, o?.b@bang@.c].join()",
    "catch-var": "let r; try { throw new Error('e'); } catch (e@catchann@) { r = e.message; } r",
    "for-loops": "let s = 0; for (let i@ann@ = 0; i < 3; i++) s += i; for (const k@ann@ of [1, 2]) s += k; for (const k in { a: 1 }) s += k.length; s",
    "stmt-between": "let a = 1; @stmt@\na += 2; @stmt@\na",
    "stmt-first-last": "@stmt@\nconst q = 10; q * 2\n@stmt@",
    "stmt-in-function": "function f() { @stmt2@ const z = 1; return z + 1; } f()",
    "stmt-in-block": "let r = 0; { @stmt2@ r = 1; } if (r) { @stmt2@ r = 2; } r",
    "overloads-class": "class C { @movl@ m(x@ann@) { return x; } @covl@ constructor(a@ann@) { this.a = a; } static @sovl@ s(y@ann@) { return y; } } new C(1).m('s') + String(new C().a) + C.s(2)",
    "object-literal-methods": "const o = { m(a@ann@)@ret@ { return a; }, get g()@ret@ { return 1; }, async am@tparams@(x@ann@)@ret@ { return x; }, *gen()@ret@ { yield 1; }, ['c' + 'k'](z@ann@) { return z; } }; o.m(2) + o.g + o.ck(3) + [...o.gen()].length",
    "destructured-params": "function f({ a, b = 2 }@ann@, [c, ...d]@ann@)@ret@ { return a + b + c + d.length; } f({ a: 1 }, [3, 4, 5])",
    "default-param-types": "function f(a@ann@ = 1, b@ann@ = a + 1, c@ann@ = (x@ann@) => x + b)@ret@ { return c(a); } f()",
    "generators-async": "function* g@tparams@(n@ann@)@ret@ { yield n; return n + 1; } async function af@tparams@(x@ann@)@ret@ { return x; } [...g@targs@(1)].join() + typeof af(1).then",
    "tagged-template": "function tag@tparams@(s@ann@, ...v@ann@)@ret@ { return s.raw.join('|') + v.join(); } tag@targs@`a${1}b${2}c`",
    "satisfies-free": "const conf = { port: 80, host: 'h' }; const p@ann@ = conf.port; p + conf.host",
    "this-in-callbacks": "const o = { n: 2, f(xs@ann@)@ret@ { return xs.map((x@ann@) => x * this.n); } }; o.f([1, 2]).join()",
    "closures-generic": "function mk@tparams@(init@ann@)@ret@ { let c@ann@ = init; return { inc: ()@ret@ => ++c, get: ()@ret@ => c }; } const k = mk@targs@(5); k.inc(); k.get()",
    "type-guards-runtime": "function isS(x@ann@)@ret@ { return typeof x === 'string'; } const v@ann@ = 'a'; isS(v) ? (v@as@).length : 0",
    "switch-typed": "function f(k@ann@)@ret@ { switch (k) { case 'a': { const r@ann@ = 1; return r; } default: return 0 @as@; } } f('a') + f('b')",
    "export-typed": "export const ex@ann@ = 1; export function ef@tparams@(x@ann@)@ret@ { return x; } export class EC@tparams@ { @mod@ p@ann@ = 2; } export default ex + ef@targs@(2) + new EC().p",
    "arrow-generic-call-in-args": "function ap(f, x) { return f(x); } ap(@tparams@(y@ann@)@ret@ => y * 2, 4) + ap(function@tparams@(y@ann@) { return y; }, 1)",
    "nested-generic-close": "const m = new Map@targs@(); const f = (a@ann@) => a >> 1; const g = (a@ann@) => a >>> 1; const h = (a@ann@) => a >= 1; [m.size, f(8), g(8), h(8)].join()",
    "label-colon-ternary": "const c = true; const o = c ? (x@ann@) => x : (y@ann@) => y + 1; lab: for (const i@ann@ of [1]) { if (i) break lab; } o(1)",
    "arrow-returns-ternary": "const c = 1; const f = (a@ann@)@ret@ => c ? a : -a; const g = c ? (a@ann@)@ret@ => a : null; f(2) + g(3)",
    "new-with-generic-member": "class NS { static K = class@tparams@ { v@ann@ = 9; }; } const o = new NS.K@targs@(); o.v",
    "index-signature-class": "class D { @idx@ known@ann@ = 1; } const d = new D(); d.dyn = 2; d.known + d.dyn",
    "abstract-free-class-generic-method": "class Q { static of@tparams@(v@ann@)@ret@ { const q = new Q(); q.v = v; return q; } map@tparams@(f@ann@)@ret@ { return Q.of(f(this.v)); } } Q.of@targs@(2).map@targs@((x@ann@) => x + 1).v",
}

HOLE = re.compile(r"@(\w+)@")


def holes(t):
    return [(m.start(), m.group(1)) for m in HOLE.finditer(t)]


def alphabet(kind, tier):
    q = tier == "quick"
    if kind == "ann":
        return [": " + t for t in (TYPES[::3] if q else TYPES)]
    if kind == "ret":
        return [": " + t for t in ((TYPES[1::4] + RET_ONLY[:3]) if q else TYPES + RET_ONLY)]
    if kind == "catchann":
        return [": any", ": unknown"]
    if kind == "as":
        return [" as " + t for t in (TYPES[2::4] if q else TYPES) if not t.startswith("|")] + ([" as unknown as number"] if not q else [])
    if kind == "angle":
        return ["<" + t + ">" for t in (TYPES[::5] if q else TYPES) if not t.startswith(("|", "<", "(", "{", "'", "`", "-", "new", "abstract"))]
    if kind == "bang":
        return ["!"]
    if kind == "opt":
        return ["?"]
    if kind == "tparams":
        return TPARAMS[::2] if q else TPARAMS
    if kind == "targs":
        return TARGS[::2] if q else TARGS
    if kind == "mod":
        return MODS[::2] if q else MODS
    if kind == "modm":
        return MODM[::2] if q else MODM
    if kind == "stmt":
        return STMTS[::2] if q else STMTS
    if kind == "idx":
        return ["[k: string]: any;", "readonly [k: string]: unknown;", "[n: number]: string;"]
    if kind == "movl":
        return ["m(x: number): number;\n m(x: string): string;\n", "m(x: number): number;", "public m(x: any): any;\n", "m<T>(x: T): T;\n m(x: number, y?: string): void;\n"]
    if kind == "covl":
        return ["constructor();\n constructor(a?: number);\n", "constructor(a: string);", "private constructor(a: number);\n"]
    if kind == "sovl":
        return ["s(y: number): number;\n static", "s<T>(y: T): T; static"]
    if kind == "stmt2":
        return [s for s in (STMTS[::3] if q else STMTS) if not s.startswith(("import", "export", "declare module", "declare global"))]
    raise KeyError(kind)


def fill(t, assign):
    """assign: {hole index: text}"""
    out = []
    last = 0
    for i, m in enumerate(HOLE.finditer(t)):
        out.append(t[last:m.start()])
        out.append(assign.get(i, ""))
        last = m.end()
    out.append(t[last:])
    return "".join(out)


def cases(tier, bad_fillers=None):
    """phase 1 (bad_fillers None): undecorated programs and every single decoration.
    phase 2: combinations, built only from fillers that were accepted in every single position - so a
    combination tests the interaction of decorations that are fine on their own."""
    cs = []
    for name, t in TEMPLATES.items():
        hs = holes(t)
        ismod = "export " in t
        if bad_fillers is None:
            cs.append(("P|" + name, PRE + fill(t, {}), ismod, name, None))
            for hi, (_, kind) in enumerate(hs):
                for ai, a in enumerate(alphabet(kind, tier)):
                    cs.append(("D1|%s|%d|%d" % (name, hi, ai), PRE + fill(t, {hi: a}), ismod, name, "%s hole #%d (%s) := %s" % (name, hi, kind, a)))
            continue
        def ok(kind, which):
            return [a for a in alphabet(kind, which) if (kind, a) not in bad_fillers] or [""]
        rounds = 6 if tier == "quick" else 40
        for r in range(rounds):
            assign = {}
            for hi, (_, kind) in enumerate(hs):
                al = ok(kind, tier)
                assign[hi] = al[(r * 7 + hi * 3) % len(al)]
            cs.append(("Dall|%s|%d" % (name, r), PRE + fill(t, assign), ismod, name, "%s all holes, rotation %d: %s" % (name, r, json.dumps(assign))))
        if tier != "quick" and len(hs) <= 12:
            for (h1, (_, k1)), (h2, (_, k2)) in itertools.combinations(list(enumerate(hs)), 2):
                a1s, a2s = ok(k1, "quick"), ok(k2, "quick")
                for r in range(min(6, len(a1s), len(a2s))):
                    cs.append(("D2|%s|%d|%d|%d" % (name, h1, h2, r), PRE + fill(t, {h1: a1s[(r * 5) % len(a1s)], h2: a2s[(r * 3 + 1) % len(a2s)]}), ismod, name, "%s holes #%d,#%d" % (name, h1, h2)))
    return cs


def construct_of(desc):
    m = re.search(r"\((\w+)\) := (.*)$", desc or "")
    if not m:
        return "combination of decorations"
    kind, text = m.group(1), m.group(2)
    if kind in ("stmt", "stmt2"):
        return "statement: " + text.split("\n")[0][:60]
    if kind in ("ann", "ret", "as", "angle"):
        return "type %s in %s position" % (re.sub(r"^(: | as |<)", "", text)[:50], kind)
    return "%s %s" % (kind, text[:40])


def execute(cs):
    batch = [{"id": cid, "src": src, "path": "/p/main.ts" if ismod else None, "modules": [["/p/types.ts", "export const unused = 1;"], ["/p/x.ts", "export const y = 1;"]], "budget": 200000} for cid, src, ismod, _, _ in cs]
    for b in batch:
        if b["path"] is None:
            b.pop("path")
    return core.run_batch(batch)


def run(tier, seed):
    chk = core.Check(PID, tier, seed, "exploration")
    cs1 = cases(tier)
    res = execute(cs1)
    base = {}
    for cid, src, ismod, name, desc in cs1:
        if cid.startswith("P|"):
            o = res[cid]
            base[name] = core.obs_core(o)
            if o["status"] != "ok":
                raise core.MachineryError("template %s does not run undecorated: %s %s" % (name, o["status"], o.get("msg", "")[:200]))
    bad_fillers = set()
    for cid, src, ismod, name, desc in cs1:
        if cid.startswith("D1|") and core.obs_core(res[cid]) != base[name]:
            m = re.search(r"\((\w+)\) := (.*)$", desc, re.S)
            bad_fillers.add((m.group(1), m.group(2)))
    cs2 = cases(tier, bad_fillers)
    res.update(execute(cs2))
    total = 0
    fam = {}
    distinct = set()
    for cid, src, ismod, name, desc in cs1 + cs2:
        if cid.startswith("P|"):
            continue
        o = res[cid]
        total += 1
        kind = cid.split("|")[0]
        f = fam.setdefault(kind, {"programs": 0, "changed": 0})
        f["programs"] += 1
        got = core.obs_core(o)
        distinct.add(src)
        if got != base[name]:
            f["changed"] += 1
            what = "is refused (%s)" % o.get("err") if o["status"] == "err" and o.get("steps", 0) == 0 else "changes the outcome to %s" % got[:100]
            chk.fail("c03|" + src, got, "%s: the decorated program %s; undecorated: %s   [%s]" % (cid, what, base[name][:80], (desc or "")[:260]),
                     {"id": cid, "src": src, "module": ismod, "expected": base[name]}, cluster=construct_of(desc) if kind == "D1" else "combination of individually accepted decorations: " + name)
    chk.coverage = {"evaluations": total, "distinct_nontrivial": len(distinct), "families": fam, "templates": len(TEMPLATES), "types": len(TYPES), "fillers_refused_singly": len(bad_fillers),
                    "samples": [{"template": TEMPLATES["fn-decl"], "decorated": fill(TEMPLATES["fn-decl"], {0: "<T extends A0>", 1: ": number", 4: ": x is string"})}],
                    "rule": "%d templates with typed holes (annotation, return type, type parameters, type arguments, as / angle assertions, non-null !, optional ?, member modifiers, overload and index signatures, erasable statements incl. interfaces, aliases, declare, overloads, type-only imports/exports) x a %d-type alphabet generated from the TypeScript type grammar to depth 2; every (hole, filler) singly; then all holes at once with rotating fillers and (thorough) pairs of holes, using fillers accepted singly; non-trivial = distinct decorated programs" % (len(TEMPLATES), len(TYPES))}
    chk.assumptions = ["only constructs the property lists are used as decorations (no satisfies, this-parameters, definite assignment, accessor keyword, decorators, enums, parameter properties)", "templates are valid TypeScript by construction"]
    return chk.finish(exhaustive=True)


def replay(path):
    rp = json.load(open(path))
    b = {"id": "r", "src": rp["src"], "modules": [["/p/types.ts", "export const unused = 1;"], ["/p/x.ts", "export const y = 1;"]], "budget": 200000}
    if rp.get("module"):
        b["path"] = "/p/main.ts"
    o = core.run_batch([b])["r"]
    got = core.obs_core(o)
    print("got      " + got[:300] + "  " + o.get("msg", "")[:200])
    print("expected " + rp["expected"][:300])
    if got != rp["expected"]:
        print("VIOLATION property=C03 replay=%s" % path)
        return 1
    return 0
