"""C16 — data crosses the JSON boundary without loss or corruption.
All document trees up to a depth over leaf/key alphabets, every Unicode scalar value (thorough) as a
string and as a key, every escape form, depth and width extremes; each document goes through every
path (host->script->host, host->script text, order-response path, text->script->text with and without
indent, text->script->host). Oracle: the resulting text is accepted by an independent strict JSON
parser (Python's) and equals the document as an unordered value with numeric comparison."""
import itertools, json, math, sys
from . import core

PID = "C16"

LEAVES = ["null", "true", "false", "0", "-0", "1", "-1", "1.5", "1e21", "1e-7", "9007199254740992", "9007199254740994", "9223372036854775808", "-9223372036854775808", "1e308", "5e-324", "123456789012345680000",
          "0.1", "4294967296", "\"\"", "\"a\"", "\"\\u00e9\"", "\"\\u0000\"", "\"\\\"\\\\\\/\"", "\"\\ud83d\\ude00\"", "\" \"", "\"\\n\\t\"", "\"\\u2028\"", "\"null\"", "\"1\""]
KEYS = ["", "a", "b", "0", "1", "01", "-1", "4294967294", "4294967295", "4294967296", "length", "constructor", "__proto__", "toString", "\\u00e9", "a b", "\\\"", "1.5", "-0", "valueOf", "hasOwnProperty"]


def trees(depth, leaves, keys, width):
    """all documents of nesting depth <= depth with 0..width members"""
    if depth == 0:
        return list(leaves)
    sub = trees(depth - 1, leaves, keys, width)
    out = list(leaves)
    out.append("[]")
    out.append("{}")
    for w in range(1, width + 1):
        for combo in itertools.product(sub, repeat=w):
            out.append("[" + ",".join(combo) + "]")
        for ks in itertools.permutations(keys, w):
            for combo in itertools.product(sub, repeat=w):
                out.append("{" + ",".join('"%s":%s' % (k, v) for k, v in zip(ks, combo)) + "}")
    return out


def docs(tier):
    out = []
    # depth 1: every leaf in arrays/objects under every key
    for v in LEAVES:
        out.append(v)
        out.append("[" + v + "]")
        out.append("[" + v + "," + v + "]")
        for k in KEYS:
            out.append('{"%s":%s}' % (k, v))
    for k1, k2 in itertools.permutations(KEYS, 2):
        out.append('{"%s":1,"%s":"x"}' % (k1, k2))
    for k1, k2, k3 in itertools.permutations(KEYS[:9] if tier == "quick" else KEYS[:13], 3):
        out.append('{"%s":1,"%s":[2],"%s":{"n":3}}' % (k1, k2, k3))
    small_leaves = ["null", "true", "0", "-1", "1.5", "\"a\"", "\"\\u00e9\""] if tier == "quick" else LEAVES[:14] + ["\"a\"", "\"\\u00e9\"", "\"\\ud83d\\ude00\""]
    small_keys = ["a", "0", "1", "length", "__proto__x"] if tier == "quick" else ["a", "b", "0", "1", "01", "length", "__proto__x", ""]
    out += trees(2 if tier == "quick" else 2, small_leaves[:4] if tier == "quick" else small_leaves[:7], small_keys[:3] if tier == "quick" else small_keys[:4], 2)
    # numbers
    nums = ["0", "-0", "0.0", "1e0", "1E+2", "1e-2", "123", "-123", "0.5", "1.7976931348623157e308", "2.2250738585072014e-308", "5e-324", "1e-400", "123456789.123456789", "0.1", "0.2", "0.30000000000000004",
            "9007199254740991", "9007199254740993", "18446744073709551615", "18446744073709551616", "1e19", "1.0000000000000002", "4.35", "0.000001", "1e-7", "100", "1e21", "1e22", "3.141592653589793", "2.5e-5", "-1e-300"]
    out += nums + ["[" + n + "]" for n in nums] + ['{"n":' + n + "}" for n in nums]
    # width
    for w in ([10, 100, 1000] if tier == "quick" else [10, 100, 1000, 10000, 30000]):   # (the in-script walker is quadratic in the width; 10^5 members exceed the worker's step budget)
        out.append("[" + ",".join(str(i) for i in range(w)) + "]")
        out.append("{" + ",".join('"k%d":%d' % (i, i) for i in range(w)) + "}")
        out.append("{" + ",".join('"%d":%d' % (i, i) for i in range(w)) + "}")
    return out


def unicode_docs(tier):
    out = []
    if tier == "quick":
        cps = set(range(0, 0x180)) | set(range(0x7f0, 0x810)) | set(range(0x2020, 0x2030)) | set(range(0xd7f0, 0xd800)) | set(range(0xe000, 0xe010)) | set(range(0xfff0, 0x10010)) | set(range(0x1f5f0, 0x1f610)) | set(range(0x10fff0, 0x110000))
        cps |= set(range(0, 0x110000, 0x101))
    else:
        cps = set(range(0, 0x110000))
    for cp in sorted(cps):
        if 0xd800 <= cp <= 0xdfff:
            continue
        ch = chr(cp)
        lit = json.dumps(ch, ensure_ascii=False) if cp >= 0x20 and ch not in '"\\' else json.dumps(ch)
        out.append(("U+%04X raw" % cp, lit))
        out.append(("U+%04X key" % cp, "{" + lit + ":1}"))
        if tier != "quick" and cp > 0x2100 and cp % 7:
            continue
        out.append(("U+%04X escaped" % cp, json.dumps(ch, ensure_ascii=True)))
    # escape forms incl. surrogates
    for name, lit in [("pair-escape", "\"\\ud83d\\ude00\""), ("pair-upper", "\"\\uD83D\\uDE00\""), ("mixed", "\"a\\u0041\\n\\/\\b\\f\\r\\t\\\\\\\"z\""), ("nul", "\"\\u0000\""), ("lone-high", "\"\\ud800\""), ("lone-low", "\"\\udc00\""),
                      ("swapped", "\"\\udc00\\ud800\""), ("high-then-char", "\"\\ud800a\""), ("key-lone", "{\"\\ud800\":1}"), ("ctrl-raw-rejected", "\"\x01\""), ("bad-escape", "\"\\x41\""), ("short-u", "\"\\u12\"")]:
        out.append(("escape:" + name, lit))
    return out


def depth_docs(tier):
    ds = list(range(1, 40)) + [64, 100, 126, 127, 128, 129, 130, 200, 256, 500, 1000, 2000, 5000, 10000] + ([20000, 50000, 100000] if tier != "quick" else [])
    out = []
    for d in ds:
        out.append(("depth:array:%d" % d, "[" * d + "]" * d))
        out.append(("depth:object:%d" % d, '{"a":' * d + "1" + "}" * d))
        out.append(("depth:mixed:%d" % d, '[{"a":' * d + "null" + "}]" * d))
    return out


def canon(v):
    """unordered value with numeric comparison: ints and floats that are equal compare equal; -0 == 0"""
    if isinstance(v, bool) or v is None or isinstance(v, str):
        return v
    if isinstance(v, (int, float)):
        f = float(v) if not isinstance(v, int) or abs(v) < 2 ** 63 else float(v)
        return ("num", f if f != 0 else 0.0)
    if isinstance(v, list):
        return [canon(x) for x in v]
    return {k: canon(x) for k, x in v.items()}


MALFORMED_OK = {"escape:lone-high", "escape:lone-low", "escape:swapped", "escape:high-then-char", "escape:key-lone"}
MUST_REJECT = {"escape:ctrl-raw-rejected", "escape:bad-escape", "escape:short-u"}


def run(tier, seed):
    chk = core.Check(PID, tier, seed, "exploration")
    cases = []
    for i, d in enumerate(docs(tier)):
        cases.append({"id": "doc|%d" % i, "text": d})
    for name, d in unicode_docs(tier):
        cases.append({"id": "uni|" + name, "text": d, "only": "h2h,t2t,t2h,h2s,t2w,h2w" if name.endswith("raw") or name.startswith("escape") else "t2t,h2h"})
    for name, d in depth_docs(tier):
        cases.append({"id": name, "text": d, "only": "h2h,t2t,t2h,resp,t2w"})
    seen = set()
    uniq = []
    for c in cases:
        if c["id"] in seen:
            continue
        seen.add(c["id"])
        uniq.append(c)
    res = core.run_batch(uniq, sub_args=("c16",), hang_s=60, as_gb=4)
    total = 0
    nontrivial = set()
    fam = {}
    for c in uniq:
        o = res[c["id"]]
        kind = c["id"].split("|")[0].split(":")[0]
        f = fam.setdefault(kind, {"documents": 0, "path_results": 0, "bad": 0})
        f["documents"] += 1
        text = c["text"]
        name = c["id"].split("|", 1)[-1]
        try:
            want = canon(json.loads(text, parse_constant=lambda s: (_ for _ in ()).throw(ValueError(s))))
            valid = True
        except (ValueError, RecursionError):
            want, valid = None, False
        if o.get("status") != "ok":
            total += 1
            f["bad"] += 1
            chk.fail("proc|" + c["id"] + "|" + text[:2000], o["status"].split(":")[0], "document %s (%s): worker %s" % (c["id"], text[:80], o["status"]),
                     {"text": text if len(text) < 5000 else None, "id": c["id"]}, cluster="%s: process-level failure (%s)" % (kind, o["status"].split(":")[0]))
            continue
        for path in ("h2h", "h2s", "h2w", "resp", "t2t", "t2w", "ind2", "indT", "t2h"):
            if path not in o:
                continue
            got = o[path]
            total += 1
            f["path_results"] += 1
            bad = None
            if got.startswith("!"):
                # an error outcome: fine for documents the specification rejects, or lone surrogates
                if not valid or name in MALFORMED_OK:
                    continue
                bad = "error outcome %s for a valid document" % got[1:]
            else:
                if not valid and name in MUST_REJECT:
                    bad = "malformed text accepted: -> %s" % got[:60]
                elif not valid:
                    continue
                else:
                    try:
                        back = canon(json.loads(got))
                    except (ValueError, RecursionError) as e:
                        back = None
                        bad = "output is not well-formed JSON (%s): %s" % (str(e)[:40], got[:80])
                    if bad is None and back != want:
                        bad = "value changed: -> %s" % got[:100]
                    elif bad is None:
                        nontrivial.add(got[:200])
            if bad:
                f["bad"] += 1
                if kind == "depth" and got.startswith("!err:SyntaxError"):
                    cl = "JSON.parse refuses valid documents nested deeper than 127 levels"
                elif '"__proto__"' in text and path in ("h2w", "t2w"):
                    cl = "an own property named __proto__ reads back as the prototype object"
                elif kind == "depth":
                    shape = c["id"].split(":")[1]
                    cl = "depth: %s nested documents fail on path %s (%s)" % (shape, path, bad.split(":")[0][:40])
                elif kind == "uni":
                    cl = "unicode: path %s: %s" % (path, bad.split(":")[0][:50])
                else:
                    cl = "documents: path %s: %s" % (path, bad.split(":")[0][:50])
                chk.fail("%s|%s|%s" % (path, c["id"], text[:3000]), got[:300], "%s via %s: %s   [document %s]" % (c["id"], path, bad, text[:100]),
                         {"text": text if len(text) < 5000 else None, "id": c["id"], "path": path}, cluster=cl)
    chk.coverage = {"evaluations": total, "distinct_nontrivial": len(nontrivial), "families": fam, "samples": [{"text": uniq[37]["text"]}, {"text": uniq[len(uniq) // 2]["text"][:80]}],
                    "rule": "all documents of the stated shapes over %d leaves x %d keys (every leaf under every key, all ordered key pairs/triples, all trees of depth 2 with <=2 members over reduced alphabets), a number zoo, widths to 1000 (thorough 30000), every Unicode scalar value (quick: boundary ranges + every 257th) raw/escaped/as key, escape forms incl. lone surrogates, nesting depths 1..39 and a ladder to 10000 (thorough 100000); each through the paths h2h, h2s, h2w, resp, t2t, t2w, ind2, indT, t2h; non-trivial = distinct correct output texts" % (len(LEAVES), len(KEYS))}
    chk.assumptions = ["Python's json module is the independent strict parser", "comparison is unordered with numeric equality (key order and -0 vs 0 are not demanded)", "lone surrogate escapes may be refused (UTF-8 strings cannot hold them); they must not be corrupted silently into other text"]
    return chk.finish(exhaustive=True)


def replay(path):
    rp = json.load(open(path))
    if rp.get("text") is None:
        d = dict(depth_docs("thorough"))
        rp["text"] = d.get(rp["id"])
    o = core.run_batch([{"id": "r", "text": rp["text"]}], sub_args=("c16",), hang_s=60, as_gb=4)["r"]
    print(json.dumps(o)[:1500])
    p = rp.get("path")
    if o.get("status") != "ok":
        print("VIOLATION property=C16 replay=%s" % path)
        return 1
    if p and p in o:
        try:
            ok = canon(json.loads(o[p])) == canon(json.loads(rp["text"]))
        except Exception:
            ok = False
        if not ok:
            print("VIOLATION property=C16 replay=%s" % path)
            return 1
    return 0
