"""C15 — numbers convert to and from text and integers exactly as specified.
Exhaustive enumeration of structured families of doubles / decimal strings / digit arguments, each
checked against exact arithmetic (Python ints, Fractions and the shortest-round-trip repr)."""
import json, math, struct, subprocess, sys
from fractions import Fraction
from . import core, prog

PID = "C15"


def bits(x):
    return struct.unpack("<Q", struct.pack("<d", x))[0]


def frombits(b):
    return struct.unpack("<d", struct.pack("<Q", b))[0]


# ------------------------------------------------------------------ exact references
def digits_exp(x):
    """shortest round-trip decimal digits of |x| (x finite, non-zero): (digits, n) with value = 0.digits * 10^n"""
    r = repr(abs(x))
    if "e" in r:
        m, e = r.split("e")
        e = int(e)
    else:
        m, e = r, 0
    if "." in m:
        ip, fp = m.split(".")
    else:
        ip, fp = m, ""
    ds = (ip + fp).lstrip("0")
    lead = len(ip + fp) - len((ip + fp).lstrip("0"))
    n = len(ip) - lead + e
    ds = ds.rstrip("0") or "0"
    return ds, n


def js_tostring(x):
    if x != x:
        return "NaN"
    if x == 0:
        return "0"
    if math.isinf(x):
        return "Infinity" if x > 0 else "-Infinity"
    s = "-" if x < 0 else ""
    ds, n = digits_exp(x)
    k = len(ds)
    if k <= n <= 21:
        return s + ds + "0" * (n - k)
    if 0 < n <= 21:
        return s + ds[:n] + "." + ds[n:]
    if -6 < n <= 0:
        return s + "0." + "0" * (-n) + ds
    e = n - 1
    es = ("+" if e >= 0 else "-") + str(abs(e))
    if k == 1:
        return s + ds + "e" + es
    return s + ds[0] + "." + ds[1:] + "e" + es


def to_uint32(x):
    if x != x or math.isinf(x):
        return 0
    return int(x) % (1 << 32)


def to_int32(x):
    u = to_uint32(x)
    return u - (1 << 32) if u >= (1 << 31) else u


def round_half_up(fr):
    """nearest integer to non-negative Fraction, ties to the larger"""
    n = fr.numerator // fr.denominator
    if fr - n >= Fraction(1, 2):
        n += 1
    return n


def to_fixed(x, f):
    if x != x:
        return "NaN"
    if abs(x) >= 1e21 or math.isinf(x):
        return js_tostring(x)
    s = ""
    if x < 0:
        s, x = "-", -x
    n = round_half_up(Fraction(x) * 10 ** f)
    m = str(n) if n != 0 else "0"
    if f != 0:
        if len(m) <= f:
            m = "0" * (f + 1 - len(m)) + m
        m = m[:-f] + "." + m[-f:]
    return s + m


def exp_parts(x, p):
    """(digits n with exactly p digits, exponent e) such that n*10^(e-p+1) is nearest to x>0, ties to larger n"""
    fx = Fraction(x)
    e = math.floor(math.log10(x)) if x > 0 else 0
    for cand in (e - 1, e, e + 1):  # guard against log10 rounding
        if Fraction(10) ** cand <= fx < Fraction(10) ** (cand + 1):
            e = cand
            break
    n = round_half_up(fx / Fraction(10) ** (e - p + 1))
    if n >= 10 ** p:
        n //= 10
        e += 1
        # re-round at the new exponent
        n = round_half_up(fx / Fraction(10) ** (e - p + 1))
    return n, e


def to_exponential(x, f):
    if x != x:
        return "NaN"
    if math.isinf(x):
        return "Infinity" if x > 0 else "-Infinity"
    s = ""
    if x < 0:
        s, x = "-", -x
    if x == 0:
        m = "0" * ((f or 0) + 1)
        e = 0
    elif f is None:
        ds, n = digits_exp(x)
        m, e = ds, n - 1
    else:
        n, e = exp_parts(x, f + 1)
        m = str(n)
    if len(m) > 1:
        m = m[0] + "." + m[1:]
    return s + m + "e" + ("+" if e >= 0 else "-") + str(abs(e))


def to_precision(x, p):
    if x != x:
        return "NaN"
    if math.isinf(x):
        return "Infinity" if x > 0 else "-Infinity"
    s = ""
    if x < 0:
        s, x = "-", -x
    if x == 0:
        m, e = "0" * p, 0
    else:
        n, e = exp_parts(x, p)
        m = str(n)
        if e < -6 or e >= p:
            if p != 1:
                m = m[0] + "." + m[1:]
            return s + m + "e" + ("+" if e >= 0 else "-") + str(abs(e))
    if e == p - 1:
        return s + m
    if e >= 0:
        return s + m[:e + 1] + "." + m[e + 1:]
    return s + "0." + "0" * (-(e + 1)) + m


def to_radix_int(x, r):
    n = int(x)
    s = "-" if n < 0 else ""
    n = abs(n)
    ds = "0123456789abcdefghijklmnopqrstuvwxyz"
    out = ""
    while True:
        out = ds[n % r] + out
        n //= r
        if n == 0:
            break
    return s + out


def exact_print(x):
    """mirror of the in-program __num printer (exact mantissa/exponent decomposition)"""
    if x != x:
        return "NaN"
    if x == 0:
        return "-0" if math.copysign(1, x) < 0 else "0"
    if math.isinf(x):
        return "Inf" if x > 0 else "-Inf"
    neg = x < 0
    fr = Fraction(abs(x))
    e = 0
    n = fr
    while n.denominator != 1:
        n *= 2
        e -= 1
    n = n.numerator
    if n >= 1 << 53:
        k = 0
        while n >= 1 << 53:
            if n % 2:
                return ("-" if neg else "") + "big"
            n //= 2
            k += 1
        e += k
    return ("-" if neg else "") + str(n) + ("p" + str(e) if e != 0 else "")


# ------------------------------------------------------------------ families
MANT12 = [0, 1, 2, 3, (1 << 52) - 1, (1 << 51), (1 << 51) + 1, (1 << 51) - 1, 0x5555555555555, 0xAAAAAAAAAAAAA, 0x8000000000001, 0xFFFFFFFFFFFFE]


def mantissas(tier):
    if tier == "quick":
        return MANT12
    out = set(MANT12)
    for k in range(52):
        out.add(1 << k)
        out.add(((1 << 52) - 1) ^ (1 << k))
    for k in range(-20, 21):  # mantissas of powers of ten
        out.add(bits(10.0 ** k) & ((1 << 52) - 1))
    return sorted(out)


def fam_doubles(tier):
    out = set()
    for e in range(0, 2047):
        for m in mantissas(tier):
            out.add((e << 52) | m)
    for k in range(-323, 309):
        b = bits(float("1e%d" % k))
        for d in range(-3, 4):
            if 0 <= b + d < (2047 << 52):
                out.add(b + d)
    for k in range(-1074, 1024):
        b = bits(math.ldexp(1.0, k))
        for d in range(-3, 4):
            if 0 <= b + d < (2047 << 52):
                out.add(b + d)
    for c in (2 ** 31, 2 ** 32, 2 ** 53, 10 ** 21):
        w = 128 if tier == "quick" else 1024
        for d in range(-w, w + 1):
            out.add(bits(float(c + d)))
            out.add(bits(float(c)) + d)
    for base in (1e-7, 1e-6, 1e21, 1e20, 123456789012345680000.0, 0.1, 0.3, 1 / 3, 2 / 3, 5e-324, 1.7976931348623157e308, 4.35, 0.000001, 1.005, 8.345, 1e23, 9.5e-7):
        b = bits(base)
        for d in range(-64, 65):
            out.add(b + d)
    vals = sorted(v for v in out if 0 <= v < (2047 << 52))
    neg = [v | (1 << 63) for v in (vals if tier != "quick" else vals[::7])]
    return vals + neg


def fam_strings(tier):
    out = []
    dmax = 100 if tier == "quick" else 1000
    for d in range(1, dmax):
        for e in range(-330, 311, 1 if tier != "quick" or d < 10 else 7):
            out.append("%de%d" % (d, e))
    for d in ("0.1", "1.5", ".5", "5.", "00012", "1e+5", "1E5", "0x10", "0b101", "0o17", " 12 ", "\t1\n", "", " ", "1e", "e5", "--1", "+1", "-0", "Infinity", "-Infinity", "+Infinity", "infinity", "1_000", "1,5", "12px", "0x", "0xg", "1e1000", "-1e1000", "1e-1000", "9007199254740993", "9007199254740992.5", "179769313486231580793728971405303415079934132710037826936173778980444968292764750946649017977587207096330286416692887910946555547851940402630657488671505820681908902000708383676273854845817711531764475730270069855571366959622842914819860834936475292719074168444365510704342711559699508093042880177904174497791", "2.4703282292062327208051355972539198357729351182104e-324", "2.4703282292062328e-324"):
        out.append(d)
    # halfway cases between neighbouring doubles (exact decimal expansions)
    bases = [1.0, 2.0, 9007199254740992.0, 0.1, 1e22, 1e23, 5e-324, 2.2250738585072014e-308, 1.7976931348623157e308, 123456.789, 3.0e-5, 8.5e15]
    for b in bases:
        bb = bits(b)
        for d in range(-4, 5):
            lo, hi = frombits(max(bb + d, 0)), frombits(max(bb + d + 1, 1))
            if math.isinf(hi) or math.isinf(lo) or hi != hi or lo != lo:
                continue
            mid = (Fraction(lo) + Fraction(hi)) / 2
            for delta in (Fraction(0), Fraction(1, 10 ** 400), -Fraction(1, 10 ** 400)):
                out.append(frac_to_decimal(mid + delta))
    return out


def frac_to_decimal(fr):
    """exact or 420-digit decimal expansion of a non-negative Fraction"""
    n, d = fr.numerator, fr.denominator
    ip = n // d
    rem = n % d
    ds = []
    for _ in range(1200):
        if rem == 0:
            break
        rem *= 10
        ds.append(str(rem // d))
        rem %= d
    return str(ip) + ("." + "".join(ds) if ds else "")


def py_string_to_number(s):
    """ECMAScript StringToNumber reference for the string family"""
    t = s.strip(" \t\n\r\v\f ﻿")
    if t == "":
        return 0.0
    if t in ("Infinity", "+Infinity"):
        return float("inf")
    if t == "-Infinity":
        return float("-inf")
    for pre, base in (("0x", 16), ("0X", 16), ("0b", 2), ("0B", 2), ("0o", 8), ("0O", 8)):
        if t.startswith(pre):
            body = t[2:]
            if body and all(c in "0123456789abcdefABCDEF"[: (10 if base <= 10 else 22)] for c in body):
                try:
                    return float(int(body, base))
                except (ValueError, OverflowError):
                    return float("nan")
            return float("nan")
    import re
    if not re.fullmatch(r"[+-]?(\d+\.?\d*([eE][+-]?\d+)?|\.\d+([eE][+-]?\d+)?)", t):
        return float("nan")
    try:
        return float(t)
    except (ValueError, OverflowError):
        return float("nan")


# ------------------------------------------------------------------ drivers
def direct(lines):
    """send request lines to `tvh c15` over 16 shards, return answers in order"""
    exe = core.build()
    n = core.NCPU
    shards = [lines[i::n] for i in range(n)]
    procs = [subprocess.Popen([exe, "c15"], stdin=subprocess.PIPE, stdout=subprocess.PIPE, text=True) for _ in shards]
    import threading
    outs = [None] * n

    def go(i):
        outs[i] = procs[i].communicate("".join(l + "\n" for l in shards[i]))[0].split("\n")
    ths = [threading.Thread(target=go, args=(i,)) for i in range(n)]
    [t.start() for t in ths]
    [t.join() for t in ths]
    res = [None] * len(lines)
    for i in range(n):
        if procs[i].returncode != 0 or len(outs[i]) < len(shards[i]):
            raise core.MachineryError("c15 worker failed (rc=%s)" % procs[i].returncode)
        for k, _ in enumerate(shards[i]):
            res[i + k * n] = outs[i][k]
    return res


def lit(x):
    r = repr(x)
    if r in ("inf", "-inf", "nan"):
        return {"inf": "Infinity", "-inf": "-Infinity", "nan": "NaN"}[r]
    return "(" + r + ")" if x < 0 or r.startswith("-") else r


def inprogram(exprs, with_printer=False):
    """exprs: list of (key, js expression producing a string); returns {key: result string}"""
    cases = []
    per = 20 if with_printer else 100
    for i in range(0, len(exprs), per):
        chunk = exprs[i:i + per]
        body = "function t(f){ try { return String(f()); } catch (e) { return 'E:' + (e && e.name); } }\n[" + ",".join("t(()=>%s)" % e for _, e in chunk) + "].join('\\u0001')"
        cases.append(prog.Case("b%d" % i, (prog.PRINTER + "\n" if with_printer else "") + body))
    res = prog.tsrun_run(cases, budget=3000000)
    out = {}
    for i, c in zip(range(0, len(exprs), per), cases):
        chunk = exprs[i:i + per]
        o = res[c.id]
        if o["status"] == "ok" and o["value"].startswith("s:"):
            parts = o["value"][2:].split("\u0001")
            if len(parts) == len(chunk):
                for (k, _), p in zip(chunk, parts):
                    out[k] = p
                continue
        for k, _ in chunk:
            out[k] = "<batch %s %s %s>" % (o["status"], o.get("err"), o.get("msg", "")[:60])
    return out


def run(tier, seed):
    chk = core.Check(PID, tier, seed, "exploration")
    ev = 0
    fam = {}
    distinct = set()
    # 1. number -> string, direct
    ds = fam_doubles(tier)
    ans = direct(["n %016x" % b for b in ds])
    bad = 0
    for b, got in zip(ds, ans):
        x = frombits(b)
        want = js_tostring(x)
        ev += 1
        distinct.add(want)
        if got != want:
            bad += 1
            chk.fail("n2s|%016x" % b, got, "number_to_string(%r bits %016x) = %r, expected %r" % (x, b, got, want), {"kind": "n2s", "bits": "%016x" % b, "expected": want})
    fam["number_to_string"] = {"cases": len(ds), "disagree": bad}
    # 2. round trip of the expected text + string -> number, direct
    strs = fam_strings(tier)
    rts = sorted(set(js_tostring(frombits(b)) for b in ds[::3]))
    allstr = strs + rts
    ans = direct(["s " + s.replace("\n", " ").replace("\t", " ") if ("\n" in s or "\t" in s) else "s " + s for s in allstr])
    bad = 0
    for s, got in zip(allstr, ans):
        s_eff = s.replace("\n", " ").replace("\t", " ")
        want = py_string_to_number(s_eff)
        wb = "%016x" % bits(want)
        ev += 1
        if want != want:
            ok = got != "<panic>" and frombits(int(got, 16)) != frombits(int(got, 16))
        else:
            ok = got == wb
        if not ok:
            bad += 1
            chk.fail("s2n|" + s_eff, got, "string_to_number(%r) = bits %s (%r), expected %r" % (s_eff[:60], got, frombits(int(got, 16)) if got != "<panic>" else None, want), {"kind": "s2n", "text": s_eff, "expected": wb})
    fam["string_to_number"] = {"cases": len(allstr), "disagree": bad}
    # 3. in-program: literals, String(x), template, x|0, x>>>0
    sub = ds[:: (23 if tier == "quick" else 5)]
    exprs = []
    want = {}
    for b in sub:
        x = frombits(b)
        if x != x or math.isinf(x):
            continue
        L = lit(x)
        for k, e, w in (("lit", "__num(%s)" % L, exact_print(x)), ("String", "String(%s)" % L, js_tostring(x)), ("tpl", "`${%s}`" % L, js_tostring(x)),
                        ("or0", "__num(%s|0)" % L, str(to_int32(x))), ("ushr0", "__num(%s>>>0)" % L, str(to_uint32(x))), ("shl1", "__num(%s<<1)" % L, str(to_int32(float(to_int32(x) * 2)))),
                        ("concat", "''+%s" % L, js_tostring(x)), ("Number", "__num(Number('%s'))" % js_tostring(x), exact_print(x)), ("parseFloat", "__num(parseFloat('%s'))" % js_tostring(x), exact_print(x))):
            key = "%s|%016x" % (k, b)
            exprs.append((key, e))
            want[key] = w
    got = inprogram(exprs, with_printer=True)
    bad = 0
    for (key, e) in exprs:
        ev += 1
        if got[key] != want[key]:
            bad += 1
            chk.fail("prog|" + key, got[key], "%s evaluates to %r, expected %r" % (e, got[key][:80], want[key]), {"kind": "expr", "expr": e, "expected": want[key], "printer": True})
    fam["in-program literals/String/|0/>>>0"] = {"cases": len(exprs), "disagree": bad}
    # 4. toFixed / toPrecision / toExponential / toString(radix)
    vals = [0.0, -0.0, 1.0, -1.5, 0.5, 1.005, 1.45, 2.5, 8.345, 123.456, 0.000001, 1e-7, 1.0e21, 1e20, 999999999999999900000.0, 123456789012345680000.0, 0.1, 5e-324, 1.7976931348623157e308, 4.35, 1234.5678, 0.00009, 99.99, 9.995, 1e-10, 255.0, float("nan"), float("inf")]
    if tier != "quick":
        vals += [frombits(b) for b in ds[::997]][:300]
    exprs = []
    want = {}
    drange = list(range(0, 101)) if tier != "quick" else [0, 1, 2, 3, 5, 10, 15, 16, 17, 20, 21, 50, 100]
    for x in vals:
        L = lit(x)
        for d in drange:
            exprs.append(("fix|%r|%d" % (x, d), "%s.toFixed(%d)" % (L, d)))
            want[exprs[-1][0]] = to_fixed(x, d)
            exprs.append(("exp|%r|%d" % (x, d), "%s.toExponential(%d)" % (L, d)))
            want[exprs[-1][0]] = to_exponential(x, d)
            if d >= 1:
                exprs.append(("prec|%r|%d" % (x, d), "%s.toPrecision(%d)" % (L, d)))
                want[exprs[-1][0]] = to_precision(x, d)
        exprs.append(("exp|%r|u" % x, "%s.toExponential()" % L))
        want[exprs[-1][0]] = to_exponential(x, None)
        exprs.append(("prec|%r|u" % x, "%s.toPrecision()" % L))
        want[exprs[-1][0]] = js_tostring(x)
        for d, nm in ((-1, "toFixed"), (101, "toFixed"), (0, "toPrecision"), (101, "toPrecision"), (-1, "toExponential"), (101, "toExponential")):
            exprs.append(("range|%r|%s|%d" % (x, nm, d), "%s.%s(%d)" % (L, nm, d)))
            want[exprs[-1][0]] = "E:RangeError" if not (nm != "toFixed" and (x != x or math.isinf(x))) else js_tostring(x)
    ints = [0, 1, -1, 255, -255, 2 ** 31, 2 ** 32 - 1, 2 ** 53 - 1, 10 ** 15, 35, 36, 2 ** 40 + 12345]
    for n in ints:
        for r in range(2, 37):
            exprs.append(("radix|%d|%d" % (n, r), "(%d).toString(%d)" % (n, r)))
            want[exprs[-1][0]] = to_radix_int(n, r)
    for r in (1, 37, 0, -2):
        exprs.append(("radix|10|%d" % r, "(10).toString(%d)" % r))
        want[exprs[-1][0]] = "E:RangeError"
    for fr_ in ("0.5", "0.25", "0.75", "-2.5", "0.125"):
        exprs.append(("radixfrac|%s" % fr_, "(%s).toString(2)" % fr_))
        want[exprs[-1][0]] = {"0.5": "0.1", "0.25": "0.01", "0.75": "0.11", "-2.5": "-10.1", "0.125": "0.001"}[fr_]
    got = inprogram(exprs)
    bad = 0
    for (key, e) in exprs:
        ev += 1
        distinct.add(want[key])
        if got[key] != want[key]:
            bad += 1
            chk.fail("fmt|" + key, got[key], "%s = %r, expected %r" % (e, got[key][:80], want[key]), {"kind": "expr", "expr": e, "expected": want[key], "printer": False})
    fam["toFixed/toPrecision/toExponential/toString(radix)"] = {"cases": len(exprs), "disagree": bad}
    chk.coverage = {"evaluations": ev, "distinct_nontrivial": len(distinct), "families": fam,
                    "samples": [{"bits": "%016x" % ds[len(ds) // 3], "value": repr(frombits(ds[len(ds) // 3]))}, {"text": strs[len(strs) // 2]}, {"expr": exprs[len(exprs) // 2][1]}],
                    "rule": "all 2047 exponents x boundary mantissas, every power of 2 and 10 with 3 neighbours each side, integers around 2^31/2^32/2^53/10^21, notation boundaries (direct number_to_string); decimal strings d x 10^e for small d and all e in -330..310 plus exact halfway expansions (direct string_to_number); the same values as literals through the lexer, String(), templates, |0, >>>0, <<; toFixed/toPrecision/toExponential for every digit count 0..100 and toString(radix) 2..36 on integers; references: shortest round-trip repr + the Number::toString notation rule, Fractions with ties to the larger n, modular arithmetic; distinct_nontrivial = distinct expected texts"}
    chk.assumptions = ["Python's repr gives the shortest round-tripping digits (closest on ties), float() is correctly rounded", "toString(radix) only compared where the expansion is exact (integers, dyadic fractions)"]
    return chk.finish(exhaustive=True)


def replay(path):
    rp = json.load(open(path))
    if rp["kind"] == "n2s":
        got = direct(["n " + rp["bits"]])[0]
    elif rp["kind"] == "s2n":
        got = direct(["s " + rp["text"]])[0]
    else:
        got = inprogram([("k", rp["expr"])], with_printer=rp.get("printer", False))["k"]
    print("got %r expected %r" % (got, rp["expected"]))
    if got != rp["expected"]:
        if rp["kind"] == "s2n" and rp["expected"].startswith("7ff8") and frombits(int(got, 16)) != frombits(int(got, 16)):
            return 0
        print("VIOLATION property=C15 replay=%s" % path)
        return 1
    return 0
