function __num(n){ if(n!==n)return 'NaN'; if(n===0)return (1/n<0)?'-0':'0'; if(n===Infinity)return 'Inf'; if(n===-Infinity)return '-Inf';
 var neg=n<0; if(neg)n=-n; var e=0; while(n!==Math.floor(n)){ n=n*2; e=e-1; if(e<-1100)break; }
 var d=''; if(n<9007199254740992){ if(n===0)d='0'; while(n>0){ var q=Math.floor(n/10); var r=n-q*10; d='0123456789'.charAt(r)+d; n=q; } }
 else { var k=0; while(n>=9007199254740992){ n=n/2; k=k+1; if(n!==Math.floor(n)){ return (neg?'-':'')+'big'; } } e=e+k; while(n>0){ var q2=Math.floor(n/10); var r2=n-q2*10; d='0123456789'.charAt(r2)+d; n=q2; } }
 return (neg?'-':'')+d+(e!==0?('p'+(e<0?'-'+__num(-e):__num(e))):''); }
function __str(s){ var o='"'; for(var i=0;i<s.length;i++){ var c=s.charCodeAt(i); if(c>=32&&c<127&&c!==34&&c!==92){ o+=s.charAt(i); } else { var h=''; var x=c; for(var j=0;j<4;j++){ h='0123456789abcdef'.charAt(x%16)+h; x=Math.floor(x/16); } o+='\\u'+h; } } return o+'"'; }
function __s(v,seen){ var t=typeof v; if(v===null)return 'null'; if(t==='undefined')return 'undef'; if(t==='number')return __num(v); if(t==='string')return __str(v); if(t==='boolean')return v?'true':'false';
 if(t==='symbol')return 'sym'; if(t==='bigint')return 'bigint'; if(t==='function')return 'fn';
 if(!seen)seen=[]; for(var i=0;i<seen.length;i++){ if(seen[i]===v)return '#'+__num(i); } seen.push(v);
 if(Array.isArray(v)){ var a=[]; for(var i=0;i<v.length;i++){ if(Object.prototype.hasOwnProperty.call(v,i))a.push(__s(v[i],seen)); else a.push('<hole>'); } var extra=[]; var ks=Object.keys(v); for(var i=0;i<ks.length;i++){ var k=ks[i]; if(!(String(Math.floor(Number(k)))===k&&Number(k)>=0&&Number(k)<v.length))extra.push(k+':'+__s(v[k],seen)); } return '['+a.join(',')+(extra.length?';'+extra.join(','):'')+']'; }
 if(typeof Map!=='undefined'&&v instanceof Map){ var m=[]; v.forEach(function(val,key){ m.push(__s(key,seen)+'=>'+__s(val,seen)); }); return 'Map{'+m.join(',')+'}'; }
 if(typeof Set!=='undefined'&&v instanceof Set){ var m2=[]; v.forEach(function(val){ m2.push(__s(val,seen)); }); return 'Set{'+m2.join(',')+'}'; }
 if(v instanceof Date)return 'Date('+__num(v.getTime())+')';
 if(typeof RegExp!=='undefined'&&v instanceof RegExp)return 'Re('+__str(v.source)+','+__str(v.flags)+')';
 if(v instanceof Error)return 'Err('+__str(String(v.name))+')';
 var cn=''; var c=v.constructor; if(typeof c==='function'&&typeof c.name==='string'&&c.name!=='Object')cn=c.name;
 var ks2=Object.keys(v); var o=[]; for(var i=0;i<ks2.length;i++){ o.push(ks2[i]+':'+__s(v[ks2[i]],seen)); } return cn+'{'+o.join(',')+'}'; }
function __cls(e){ if(typeof e==='object'&&e!==null&&e instanceof Error)return 'E:'+String(e.name); return 'T:'+__s(e); }
