"""C06 — the host keeps control: bounded steps, no script can abort the process.
Exhaustive over a table (re-entry path x body) plus (native x size) and (native x deep structure).
Host model = the CLI's: count steps, check call_depth() between steps.  Oracles: every single
step() executes at most `step_vm_budget` VM instructions (H3 hook), the host's limits fire, the
worker process never dies or hangs, oversized requests end in a catchable error or a result."""
import json, os, sys
from . import core

PID = "C06"

# ------------------------------------------------------------------ re-entry paths
# (name, setup code, invoke(A) expression that makes `go(A)` run through the path and yields go's result)
def P(name, setup, inv, group="trampolined?"):
    return (name, setup, inv)


PATHS = [
    P("plain-call", "", "go({A})"),
    P("method", "var o = { m: function (n) { return go(n); } };", "o.m({A})"),
    P("class-method", "class CM { m(n) { return go(n); } } var cm = new CM();", "cm.m({A})"),
    P("static-method", "class SM { static m(n) { return go(n); } }", "SM.m({A})"),
    P("constructor-fn", "function K(n) { this.v = go(n); }", "new K({A}).v"),
    P("class-constructor", "class C { constructor(n) { this.v = go(n); } }", "new C({A}).v"),
    P("super-call", "class B0 { constructor(n) { this.v = go(n); } } class D0 extends B0 { constructor(n) { super(n); } }", "new D0({A}).v"),
    P("field-initialiser", "var cur; class FI { v = go(cur); }", "(cur = {A}, new FI().v)"),
    P("static-block", "var cur, res;", "(cur = {A}, (class { static { res = go(cur); } }), res)"),
    P("default-parameter", "var cur; function dp(x = go(cur)) { return x; }", "(cur = {A}, dp())"),
    P("arrow", "var ar = (n) => go(n);", "ar({A})"),
    P("bound-function", "var bf = go.bind(null);", "bf({A})"),
    P("Function.call", "", "go.call(null, {A})"),
    P("Function.apply", "", "go.apply(null, [{A}])"),
    P("Reflect.apply", "", "Reflect.apply(go, null, [{A}])"),
    P("Reflect.construct", "function RK(n) { this.v = go(n); }", "Reflect.construct(RK, [{A}]).v"),
    P("getter", "var cur; var g = { get p() { return go(cur); } };", "(cur = {A}, g.p)"),
    P("class-getter", "var cur; class CG { get p() { return go(cur); } } var cg = new CG();", "(cur = {A}, cg.p)"),
    P("setter", "var res; var s = { set p(v) { res = go(v); } };", "(s.p = {A}, res)"),
    P("defineProperty-getter", "var cur; var dg = {}; Object.defineProperty(dg, 'p', { get: function () { return go(cur); } });", "(cur = {A}, dg.p)"),
    P("valueOf-unary-plus", "var cur; var vo = { valueOf: function () { return go(cur); } };", "(cur = {A}, +vo)"),
    P("valueOf-multiply", "var cur; var vo = { valueOf: function () { return go(cur); } };", "(cur = {A}, vo * 1)"),
    P("valueOf-subtract", "var cur; var vo = { valueOf: function () { return go(cur); } };", "(cur = {A}, vo - 0)"),
    P("valueOf-compare", "var cur, res; var vo = { valueOf: function () { res = go(cur); return 0; } };", "(cur = {A}, vo < 1, res)"),
    P("valueOf-loose-equal", "var cur, res; var vo = { valueOf: function () { res = go(cur); return 0; } };", "(cur = {A}, vo == 0, res)"),
    P("valueOf-add", "var cur; var vo = { valueOf: function () { return go(cur); } };", "(cur = {A}, (vo + 0))"),
    P("valueOf-bitor", "var cur, res; var vo = { valueOf: function () { res = go(cur); return 0; } };", "(cur = {A}, vo | 0, res)"),
    P("valueOf-increment", "var cur, res; var vo;", "(cur = {A}, vo = { valueOf: function () { res = go(cur); return 0; } }, vo++, res)"),
    P("valueOf-Number", "var cur; var vo = { valueOf: function () { return go(cur); } };", "(cur = {A}, Number(vo))"),
    P("valueOf-Math", "var cur; var vo = { valueOf: function () { return go(cur); } };", "(cur = {A}, Math.abs(vo))"),
    P("valueOf-array-index", "var cur, res; var vo = { toString: function () { res = go(cur); return '0'; } };", "(cur = {A}, [1][vo], res)"),
    P("toString-String", "var cur, res; var ts = { toString: function () { res = go(cur); return 's'; } };", "(cur = {A}, String(ts), res)"),
    P("toString-concat", "var cur, res; var ts = { toString: function () { res = go(cur); return 's'; } };", "(cur = {A}, '' + ts, res)"),
    P("toString-template", "var cur, res; var ts = { toString: function () { res = go(cur); return 's'; } };", "(cur = {A}, `${ts}`, res)"),
    P("toString-property-key", "var cur, res; var ts = { toString: function () { res = go(cur); return 's'; } };", "(cur = {A}, ({})[ts], res)"),
    P("toString-join", "var cur, res; var ts = { toString: function () { res = go(cur); return 's'; } };", "(cur = {A}, [ts].join(), res)"),
    P("toString-string-method", "var cur, res; var ts = { toString: function () { res = go(cur); return 's'; } };", "(cur = {A}, 'abc'.indexOf(ts), res)"),
    P("toString-parseInt", "var cur, res; var ts = { toString: function () { res = go(cur); return '1'; } };", "(cur = {A}, parseInt(ts), res)"),
    P("Symbol.toPrimitive", "var cur, res; var tp = {}; tp[Symbol.toPrimitive] = function () { res = go(cur); return 0; };", "(cur = {A}, +tp, res)"),
    P("Symbol.hasInstance", "var cur, res; var hi = {}; hi[Symbol.hasInstance] = function () { res = go(cur); return true; };", "(cur = {A}, ({}) instanceof hi, res)"),
    P("proxy-get", "var cur; var px = new Proxy({}, { get: function () { return go(cur); } });", "(cur = {A}, px.x)"),
    P("proxy-set", "var cur, res; var px = new Proxy({}, { set: function () { res = go(cur); return true; } });", "(cur = {A}, px.x = 1, res)"),
    P("proxy-has", "var cur, res; var px = new Proxy({}, { has: function () { res = go(cur); return true; } });", "(cur = {A}, 'x' in px, res)"),
    P("proxy-deleteProperty", "var cur, res; var px = new Proxy({}, { deleteProperty: function () { res = go(cur); return true; } });", "(cur = {A}, delete px.x, res)"),
    P("proxy-ownKeys", "var cur, res; var px = new Proxy({}, { ownKeys: function () { res = go(cur); return []; } });", "(cur = {A}, Object.keys(px), res)"),
    P("proxy-getOwnPropertyDescriptor", "var cur, res; var px = new Proxy({}, { getOwnPropertyDescriptor: function () { res = go(cur); return undefined; } });", "(cur = {A}, Object.getOwnPropertyDescriptor(px, 'x'), res)"),
    P("proxy-defineProperty", "var cur, res; var px = new Proxy({}, { defineProperty: function () { res = go(cur); return true; } });", "(cur = {A}, Object.defineProperty(px, 'x', { value: 1, configurable: true }), res)"),
    P("proxy-getPrototypeOf", "var cur, res; var px = new Proxy({}, { getPrototypeOf: function () { res = go(cur); return null; } });", "(cur = {A}, Object.getPrototypeOf(px), res)"),
    P("proxy-setPrototypeOf", "var cur, res; var px = new Proxy({}, { setPrototypeOf: function () { res = go(cur); return true; } });", "(cur = {A}, Object.setPrototypeOf(px, null), res)"),
    P("proxy-isExtensible", "var cur, res; var px = new Proxy({}, { isExtensible: function () { res = go(cur); return true; } });", "(cur = {A}, Object.isExtensible(px), res)"),
    P("proxy-preventExtensions", "var cur, res; var pt = {}; var px = new Proxy(pt, { preventExtensions: function () { res = go(cur); Object.preventExtensions(pt); return true; } });", "(cur = {A}, Object.preventExtensions(px), res)"),
    P("proxy-apply", "var px = new Proxy(function () {}, { apply: function (t, th, args) { return go(args[0]); } });", "px({A})"),
    P("proxy-construct", "var px = new Proxy(function () {}, { construct: function (t, args) { return { v: go(args[0]) }; } });", "new px({A}).v"),
    P("forEach", "var res;", "([{A}].forEach(function (x) { res = go(x); }), res)"),
    P("map", "", "[{A}].map(function (x) { return go(x); })[0]"),
    P("filter", "var res;", "([{A}].filter(function (x) { res = go(x); return true; }), res)"),
    P("reduce", "", "[{A}].reduce(function (a, x) { return go(x); }, 0)"),
    P("reduceRight", "", "[{A}].reduceRight(function (a, x) { return go(x); }, 0)"),
    P("some", "var res;", "([{A}].some(function (x) { res = go(x); return true; }), res)"),
    P("every", "var res;", "([{A}].every(function (x) { res = go(x); return true; }), res)"),
    P("find", "var res;", "([{A}].find(function (x) { res = go(x); return true; }), res)"),
    P("findIndex", "var res;", "([{A}].findIndex(function (x) { res = go(x); return true; }), res)"),
    P("findLast", "var res;", "([{A}].findLast(function (x) { res = go(x); return true; }), res)"),
    P("flatMap", "", "[{A}].flatMap(function (x) { return [go(x)]; })[0]"),
    P("sort-comparator", "var cur, res;", "(cur = {A}, [2, 1].sort(function (a, b) { res = go(cur); return a - b; }), res)"),
    P("Array.from-mapFn", "", "Array.from([{A}], function (x) { return go(x); })[0]"),
    P("String.replace-callback", "var cur, res;", "(cur = {A}, 'a'.replace('a', function () { res = go(cur); return 'b'; }), res)"),
    P("String.replace-regex-callback", "var cur, res;", "(cur = {A}, 'a'.replace(/a/g, function () { res = go(cur); return 'b'; }), res)"),
    P("String.replaceAll-callback", "var cur, res;", "(cur = {A}, 'a'.replaceAll('a', function () { res = go(cur); return 'b'; }), res)"),
    P("Map.forEach", "var res;", "(new Map([[1, {A}]]).forEach(function (v) { res = go(v); }), res)"),
    P("Set.forEach", "var res;", "(new Set([{A}]).forEach(function (v) { res = go(v); }), res)"),
    P("JSON.stringify-toJSON", "var cur, res;", "(cur = {A}, JSON.stringify({ toJSON: function () { res = go(cur); return 1; } }), res)"),
    P("JSON.stringify-replacer", "var cur, res;", "(cur = {A}, JSON.stringify({ a: 1 }, function (k, v) { if (k === 'a') res = go(cur); return v; }), res)"),
    P("JSON.stringify-getter", "var cur, res;", "(cur = {A}, JSON.stringify({ get a() { res = go(cur); return 1; } }), res)"),
    P("JSON.parse-reviver", "var cur, res;", "(cur = {A}, JSON.parse('[1]', function (k, v) { if (k === '0') res = go(cur); return v; }), res)"),
    P("Object.assign-getter", "var cur, res;", "(cur = {A}, Object.assign({}, { get a() { res = go(cur); return 1; } }), res)"),
    P("Object.entries-getter", "var cur, res;", "(cur = {A}, Object.entries({ get a() { res = go(cur); return 1; } }), res)"),
    P("spread-object-getter", "var cur, res;", "(cur = {A}, ({ ...{ get a() { res = go(cur); return 1; } } }), res)"),
    P("Promise-executor", "var res;", "(new Promise(function () { res = go({A}); }), res)"),
    P("iterator-spread", "var cur, res; var it = {}; it[Symbol.iterator] = function () { return { next: function () { res = go(cur); return { done: true }; } }; };", "(cur = {A}, [...it], res)"),
    P("iterator-for-of", "var cur, res; var it = {}; it[Symbol.iterator] = function () { return { next: function () { res = go(cur); return { done: true }; } }; };", "(cur = {A}, (function () { for (var x of it) { } })(), res)"),
    P("iterator-destructuring", "var cur, res; var it = {}; it[Symbol.iterator] = function () { return { next: function () { res = go(cur); return { done: true }; } }; };", "(cur = {A}, (function () { var [x] = it; })(), res)"),
    P("iterator-Array.from", "var cur, res; var it = {}; it[Symbol.iterator] = function () { return { next: function () { res = go(cur); return { done: true }; } }; };", "(cur = {A}, Array.from(it), res)"),
    P("iterator-new-Map", "var cur, res; var it = {}; it[Symbol.iterator] = function () { return { next: function () { res = go(cur); return { done: true }; } }; };", "(cur = {A}, new Map(it), res)"),
    P("iterator-new-Set", "var cur, res; var it = {}; it[Symbol.iterator] = function () { return { next: function () { res = go(cur); return { done: true }; } }; };", "(cur = {A}, new Set(it), res)"),
    P("iterator-call-spread", "var cur, res; var it = {}; it[Symbol.iterator] = function () { return { next: function () { res = go(cur); return { done: true }; } }; };", "(cur = {A}, Math.max(...it), res)"),
    P("iterator-yield-star", "var cur, res; var it = {}; it[Symbol.iterator] = function () { return { next: function () { res = go(cur); return { done: true }; } }; };", "(cur = {A}, (function* () { yield* it; })().next(), res)"),
    P("iterator-Symbol.iterator-call", "var cur, res; var it = {}; it[Symbol.iterator] = function () { res = go(cur); return { next: function () { return { done: true }; } }; };", "(cur = {A}, [...it], res)"),
    P("generator-next", "function* gen(n) { yield go(n); }", "gen({A}).next().value"),
    P("generator-for-of", "function* gen(n) { yield go(n); }", "(function () { for (var x of gen({A})) { return x; } })()"),
    P("generator-spread", "function* gen(n) { yield go(n); }", "[...gen({A})][0]"),
    P("tagged-template", "var cur; function tag() { return go(cur); }", "(cur = {A}, tag`x`)"),
    P("computed-key", "var cur, res; var ck = { toString: function () { res = go(cur); return 'k'; } };", "(cur = {A}, ({ [ck]: 1 }), res)"),
    P("eval", "var cur;", "(cur = {A}, eval('go(cur)'))"),
    P("Function.toString-hook", "var cur, res; var nm = { toString: function () { res = go(cur); return 'x'; } };", "(cur = {A}, new Error(nm), res)"),
    P("Array.prototype.toString-join-elements", "var cur, res; var el = { toString: function () { res = go(cur); return 'e'; } };", "(cur = {A}, String([el]), res)"),
    P("String.split-separator", "var cur, res; var sp = { toString: function () { res = go(cur); return ','; } };", "(cur = {A}, 'a,b'.split(sp), res)"),
    P("Object.fromEntries-iterator", "var cur, res; var it = {}; it[Symbol.iterator] = function () { return { next: function () { res = go(cur); return { done: true }; } }; };", "(cur = {A}, Object.fromEntries(it), res)"),
    P("Promise.all-iterator", "var cur, res; var it = {}; it[Symbol.iterator] = function () { return { next: function () { res = go(cur); return { done: true }; } }; };", "(cur = {A}, Promise.all(it), res)"),
    P("async-function-body", "var res; async function af(n) { res = go(n); }", "(af({A}), res)"),
    P("thenable-then", "var cur, res; var th = { then: function (r) { res = go(cur); r(1); } };", "(cur = {A}, Promise.resolve(th), res)"),
]


def prog_loop(path):
    name, setup, inv = path
    return "function go(n) { for (;;) { } }\n%s\nvar out = %s;\nString(out)" % (setup, inv.replace("{A}", "1"))


def prog_rec_unbounded(path):
    name, setup, inv = path
    return "function go(n) { return 1 + %s; }\n%s\nvar out = %s;\nString(out)" % (inv.replace("{A}", "(n + 1)"), setup, inv.replace("{A}", "1"))


def prog_rec_retry(path):
    """unbounded recursion whose deepest level catches the refusal and retries the refused call many times, again
    at every new record depth: a recursion guard that loses count under refusals lets the native stack run out"""
    name, setup, inv = path
    return ("var deepest = 0;\nfunction go(n) { try { return 1 + %s; } catch (e) { if (n > deepest) { deepest = n; for (var i = 0; i < 3000; i++) { try { %s; } catch (e2) { } } } throw e; } }\n%s\nvar out = %s;\nString(out)"
            % (inv.replace("{A}", "(n + 1)"), inv.replace("{A}", "(n + 1)"), setup, inv.replace("{A}", "1")))


def prog_rec_finite(path, depth):
    name, setup, inv = path
    return "function go(n) { if (n <= 0) return 0; return 1 + %s; }\n%s\nvar out = %s;\nString(out)" % (inv.replace("{A}", "(n - 1)"), setup, inv.replace("{A}", str(depth)))


# microtask-run paths: the callee only runs when the job queue is drained, after the main program text ends
ASYNC_PATHS = [
    ("promise-then", "var res; Promise.resolve({A}).then(function (v) { res = go(v); });"),
    ("promise-catch", "var res; Promise.reject({A}).catch(function (v) { res = go(v); });"),
    ("promise-finally", "var cur = {A}, res; Promise.resolve(1).finally(function () { res = go(cur); });"),
    ("await-continuation", "var res; (async function (n) { await null; res = go(n); })({A});"),
    ("async-generator", "var res; (async function* (n) { yield go(n); })({A}).next();"),
    ("for-await", "var res; (async function (n) { for await (var x of [n]) { res = go(x); } })({A});"),
]

# ------------------------------------------------------------------ sizes
SIZES = [("2^16", "65536"), ("2^31-1", "2147483647"), ("2^32-1", "4294967295"), ("2^32", "4294967296"), ("2^53-1", "9007199254740991"), ("Infinity", "Infinity")]
# script code called back by a native modifies the very object the native is working on (the native may hold an
# internal borrow of it): whatever the outcome, the process must not panic
MUTATE = [
    ("stringify-getter-writes-holder", "JSON.stringify({ get a() { this.cache = 1; return 1; }, b: 2 })"),
    ("stringify-getter-deletes-sibling", "JSON.stringify({ get a() { delete this.b; return 1; }, b: 2 })"),
    ("stringify-toJSON-writes-holder", "(function () { var h = { k: { toJSON: function () { h.extra = 1; h.k2 = {}; return 1; } } }; return JSON.stringify(h); })()"),
    ("stringify-replacer-writes-holder", "JSON.stringify({ a: 1, b: { c: 2 } }, function (k, v) { if (k) { this.added = k; } return v; })"),
    ("stringify-array-getter-pushes", "(function () { var a = [1, 2]; Object.defineProperty(a, 'x', { get: function () { a.push(3); return 1; }, enumerable: true }); return JSON.stringify({ arr: a, get g() { a.length = 0; return 1; } }); })()"),
    ("parse-reviver-writes-holder", "JSON.parse('{\"a\":1,\"b\":[1,2]}', function (k, v) { if (Array.isArray(this)) { this.push(9); } else { this.z = 1; } return v; })"),
    ("assign-getter-writes-source-and-target", "(function () { var t = {}; var s = { get a() { t.x = 1; this.y = 2; delete this.b; return 1; }, b: 2 }; return Object.assign(t, s); })()"),
    ("entries-getter-writes-object", "Object.entries({ get a() { this.n = 1; return 1; }, b: 2 })"),
    ("spread-getter-writes-object", "(function () { var o = { get a() { o.n = 1; return 1; }, b: 2 }; return { ...o }; })()"),
    ("rest-getter-writes-object", "(function () { var o = { get a() { o.n = 1; delete o.b; return 1; }, b: 2 }; var { a, ...r } = o; return r; })()"),
    ("keys-proxy-ownkeys-writes-target", "(function () { var t = { a: 1 }; var p = new Proxy(t, { ownKeys: function (tt) { tt.b = 2; return Reflect.ownKeys(tt); } }); return Object.keys(p); })()"),
    ("sort-comparator-mutates-array", "(function () { var a = [3, 1, 2, 5, 4]; return a.sort(function (x, y) { a.push(0); a.length = 3; return x - y; }); })()"),
    ("map-callback-clears-array", "(function () { var a = [1, 2, 3, 4]; return a.map(function (x, i) { if (i == 1) { a.length = 0; a.push(9); } return x; }); })()"),
    ("forEach-callback-unshifts", "(function () { var a = [1, 2, 3]; var n = 0; a.forEach(function (x) { if (n++ < 5) { a.unshift(0); } }); return a; })()"),
    ("reduce-callback-shrinks", "(function () { var a = [1, 2, 3, 4]; return a.reduce(function (acc, x) { a.pop(); return acc + x; }, 0); })()"),
    ("splice-valueOf-mutates", "(function () { var a = [1, 2, 3, 4]; return a.splice({ valueOf: function () { a.length = 1; return 0; } }, 2); })()"),
    ("fill-valueOf-mutates", "(function () { var a = [1, 2, 3, 4]; return a.fill(0, { valueOf: function () { a.length = 0; return 1; } }); })()"),
    ("join-toString-mutates", "(function () { var a = [1, { toString: function () { a.length = 0; a.push('x'); return 's'; } }, 3]; return a.join(); })()"),
    ("from-mapfn-mutates-source", "(function () { var src = [1, 2, 3]; return Array.from(src, function (x) { src.push(x); src.length = 2; return x; }); })()"),
    ("Map-forEach-mutates", "(function () { var m = new Map([[1, 1], [2, 2]]); var n = 0; m.forEach(function (v, k) { if (n++ < 4) { m.delete(k); m.set(k + 10, v); m.set('x' + n, 0); } }); return m.size; })()"),
    ("Set-forEach-clears", "(function () { var s = new Set([1, 2, 3]); s.forEach(function (v) { s.clear(); s.add(v + 1); if (s.size > 5) { s.clear(); } }); return s.size; })()"),
    ("Map-ctor-iterator-mutates-entries", "(function () { var e = [[1, 1], [2, 2]]; var m = new Map({ [Symbol.iterator]: function () { var i = 0; return { next: function () { e.push([9, 9]); return i < 2 ? { done: false, value: e[i++] } : { done: true }; } }; } }); return m.size; })()"),
    ("defineProperty-getter-redefines", "(function () { var o = {}; Object.defineProperty(o, 'a', { get: function () { Object.defineProperty(o, 'a', { value: 2, configurable: true }); return 1; }, configurable: true, enumerable: true }); return [o.a, o.a, JSON.stringify(o)]; })()"),
    ("setter-deletes-itself", "(function () { var o = { set s(v) { delete o.s; o.s = v; o.t = v; } }; o.s = 1; o.s = 2; return o; })()"),
    ("proxy-set-trap-writes-target", "(function () { var t = {}; var p = new Proxy(t, { set: function (tt, k, v) { tt[k] = v; tt['also_' + String(k)] = v; delete tt.gone; return true; } }); p.a = 1; Object.assign(p, { b: 2, gone: 3 }); return t; })()"),
    ("replace-callback-uses-same-regexp", "(function () { var re = /a/g; return 'aaa'.replace(re, function (m) { re.lastIndex = 0; 'a'.replace(re, 'b'); return m; }); })()"),
    ("toString-during-template", "(function () { var parts = [1, 2]; var o = { toString: function () { parts.length = 0; return 'o'; } }; return `${parts}${o}${parts}`; })()"),
    ("class-static-block-redefines", "(function () { class C { static a = 1; static { Object.defineProperty(C, 'a', { get: function () { delete C.a; return 2; }, configurable: true }); } } return [C.a, C.a]; })()"),
    ("generator-return-during-own-next", "(function () { var it; function* g() { try { it.return(5); } catch (e) { yield 'caught:' + e.name; } yield 2; } it = g(); return [it.next(), it.next()]; })()"),
    ("iterator-next-reenters-for-of", "(function () { var o = { i: 0, [Symbol.iterator]: function () { return this; }, next: function () { if (this.i++ < 2) { for (var x of [1]) { } } return { done: this.i > 3, value: this.i }; } }; var out = []; for (var v of o) { out.push(v); } return out; })()"),
]

SIZED = [
    ("String.repeat", "'x'.repeat({N})"),
    ("String.padStart", "'x'.padStart({N})"),
    ("String.padEnd", "'x'.padEnd({N}, 'ab')"),
    ("new-Array", "new Array({N})"),
    ("Array-call", "Array({N})"),
    ("Array.length-assign", "(function () { var a = []; a.length = {N}; return a; })()"),
    ("Array.from-length", "Array.from({ length: {N} })"),
    # every other writer of an array's length / far-out elements (each has its own path to the element storage)
    ("Array.length-Reflect.set", "(function () { var a = [1]; Reflect.set(a, 'length', {N}); return a.length; })()"),
    ("Array.length-Object.assign", "(function () { var a = [1]; Object.assign(a, { length: {N} }); return a.length; })()"),
    ("Array.length-proxy-set", "(function () { var a = [1]; var p = new Proxy(a, {}); p.length = {N}; return a.length; })()"),
    ("Array.length-defineProperty", "(function () { var a = [1]; Object.defineProperty(a, 'length', { value: {N} }); return a.length; })()"),
    ("Array.length-computed-key", "(function () { var a = [1]; var k = 'len' + 'gth'; a[k] = {N}; return a.length; })()"),
    ("Array.length-compound", "(function () { var a = [1]; a.length += {N}; return a.length; })()"),
    ("Array.length-spread-into-class-field", "(function () { class C { a = [1]; grow(n) { this.a.length = n; return this.a.length; } } return new C().grow({N}); })()"),
    ("Array.index-Reflect.set", "(function () { var a = []; Reflect.set(a, {N} - 2, 1); return a.length; })()"),
    ("Array.index-Object.assign", "(function () { var a = []; var o = {}; o[{N} - 2] = 1; Object.assign(a, o); return a.length; })()"),
    ("Array.index-defineProperty", "(function () { var a = []; Object.defineProperty(a, {N} - 2, { value: 1, writable: true, enumerable: true, configurable: true }); return a.length; })()"),
    ("Array.index-proxy-set", "(function () { var a = []; var p = new Proxy(a, {}); p[{N} - 2] = 1; return a.length; })()"),
    ("Array.push-apply-sized", "(function () { var a = []; a.push.apply(a, new Array({N})); return a.length; })()"),
    ("Array.unshift-spread-sized", "(function () { var a = []; a.unshift(...new Array({N})); return a.length; })()"),
    ("Array.splice-insert-sized", "(function () { var a = []; a.splice(0, 0, ...new Array({N})); return a.length; })()"),
    ("Array.of-length-then-fill", "(function () { var a = Array.of(1); a.length = {N}; a.fill(0); return a.length; })()"),
    ("Array.toSpliced-count", "[1, 2, 3].toSpliced(0, {N}).length"),
    ("Array.with-index", "(function () { try { return [1, 2, 3].with({N}, 0).length; } catch (e) { return e.name; } })()"),
    ("String.repeat-via-join", "new Array(2).join('x'.repeat(3)).repeat({N}).length"),
    ("TypedArray-like-from-length", "Array.from({ length: {N} }, function (v, i) { return i; }).length"),
    ("Array.fill-sized", "new Array({N}).fill(0)"),
    ("Array.join-sized", "new Array({N}).join('x')"),
    ("Array.index-assign", "(function () { var a = []; a[{N} - 2] = 1; return a; })()"),
    ("Array.concat-sized", "[].concat(new Array({N}))"),
    ("Array.splice-count", "[1, 2, 3].splice(0, {N})"),
    ("Array.slice-end", "[1, 2, 3].slice(0, {N})"),
    ("Array.at", "[1, 2, 3].at({N})"),
    ("Array.flat-depth", "[[1]].flat({N})"),
    ("Array.copyWithin", "[1, 2, 3].copyWithin(0, 1, {N})"),
    ("Array.with-spread-apply", "Math.max.apply(null, new Array({N}))"),
    ("String.substring", "'abc'.substring(0, {N})"),
    ("String.charAt", "'abc'.charAt({N})"),
    ("String.at", "'abc'.at({N})"),
    ("String.codePointAt", "'abc'.codePointAt({N})"),
    ("String.fromCharCode", "String.fromCharCode({N})"),
    ("String.fromCodePoint", "String.fromCodePoint({N})"),
    ("Number.toFixed", "(1.5).toFixed({N})"),
    ("Number.toPrecision", "(1.5).toPrecision({N})"),
    ("Number.toExponential", "(1.5).toExponential({N})"),
    ("Number.toString-radix", "(255).toString({N})"),
    ("JSON.stringify-indent", "JSON.stringify({ a: [1] }, null, {N})"),
    ("String.split-limit", "'a,b,c'.split(',', {N})"),
    ("String.normalize-repeat", "'ab'.repeat(3).substr(0, {N})"),
    ("Array.of-length", "Array.apply(null, { length: {N} })"),
    ("new-Date", "new Date({N}).getTime()"),
    ("Date.setMonth", "new Date(0).setMonth({N})"),
    ("Math.pow-shift", "1 << {N}"),
    ("parseInt-radix", "parseInt('11', {N})"),
    ("Array.lastIndexOf-from", "[1, 2, 3].lastIndexOf(1, {N})"),
    ("Array.includes-from", "[1, 2, 3].includes(1, {N})"),
    ("String.localeCompare-pad", "'a'.padEnd(3).repeat(1).length + {N}"),
    ("ArrayBuffer", "typeof ArrayBuffer === 'function' ? new ArrayBuffer({N}).byteLength : 'none'"),
    ("Uint8Array", "typeof Uint8Array === 'function' ? new Uint8Array({N}).length : 'none'"),
]

# ------------------------------------------------------------------ deep structures
DEEP = [
    ("JSON.stringify-deep-array", "var a = []; for (var i = 0; i < {N}; i++) { a = [a]; }", "JSON.stringify(a).length"),
    ("JSON.stringify-deep-object", "var a = {}; for (var i = 0; i < {N}; i++) { a = { k: a }; }", "JSON.stringify(a).length"),
    ("JSON.parse-deep", "var t = '['.repeat({N}) + ']'.repeat({N});", "JSON.parse(t).length"),
    ("String-of-deep-array", "var a = []; for (var i = 0; i < {N}; i++) { a = [a]; }", "String(a).length"),
    ("join-deep-array", "var a = [1]; for (var i = 0; i < {N}; i++) { a = [a]; }", "a.join('-').length"),
    ("flat-Infinity-deep", "var a = [1]; for (var i = 0; i < {N}; i++) { a = [a]; }", "a.flat(Infinity).length"),
    ("structuredClone-deep", "var a = []; for (var i = 0; i < {N}; i++) { a = [a]; }", "typeof structuredClone === 'function' ? typeof structuredClone(a) : 'none'"),
    ("console.log-deep", "var a = []; for (var i = 0; i < {N}; i++) { a = [a]; }", "(console.log(a), 1)"),
    ("deep-linked-list-gc", "var a = null; for (var i = 0; i < {N}; i++) { a = { next: a }; } var junk = []; for (var j = 0; j < 3000; j++) { junk = [junk.length]; }", "typeof a"),
    ("deep-list-dropped", "var a = null; for (var i = 0; i < {N}; i++) { a = { next: a }; } a = null; var junk = []; for (var j = 0; j < 3000; j++) { junk = [j]; }", "typeof a"),
    ("deep-closure-chain", "var f = function () { return 0; }; for (var i = 0; i < {N}; i++) { f = (function (g) { return function () { return g; }; })(f); }", "typeof f"),
    ("deep-bind-chain-call", "var f = function () { return 7; }; for (var i = 0; i < {N}; i++) { f = f.bind(null); }", "f()"),
    ("deep-prototype-chain-lookup", "var o = { base: 1 }; for (var i = 0; i < {N}; i++) { o = Object.create(o); }", "o.base"),
    ("deep-promise-chain", "var p = Promise.resolve(0); for (var i = 0; i < {N}; i++) { p = p.then(function (v) { return v + 1; }); }", "typeof p"),
    ("deep-proxy-chain-get", "var o = { v: 1 }; for (var i = 0; i < {N}; i++) { o = new Proxy(o, {}); }", "o.v"),
    ("deep-string-concat", "var s = ''; for (var i = 0; i < {N}; i++) { s = s + 'x'; }", "s.length"),
    ("deep-nested-template", "var a = 'x'; for (var i = 0; i < {N}; i++) { a = `${a}`; }", "a.length"),
    ("deep-error-cause", "var e = new Error('0'); for (var i = 0; i < {N}; i++) { e = new Error('n', { cause: e }); }", "typeof e"),
    ("deep-Object.freeze-walk", "var a = {}; for (var i = 0; i < {N}; i++) { a = { k: a }; }", "Object.isFrozen(Object.freeze(a))"),
    ("toString-deep-nesting-join", "var a = []; for (var i = 0; i < {N}; i++) { a = [a, a]; if (i > 18) break; }", "String(a).length"),
]


def cases(tier):
    out = []
    depth_fin = 3_000 if tier == "quick" else 30_000   # (the collector's cost grows with the live stack: 10^5 frames take minutes; see DESIGN.md)
    for p in PATHS:
        out.append({"id": "path|%s|loop" % p[0], "src": prog_loop(p), "step_budget": 300_000, "depth_limit": 1000, "step_vm_budget": 1_000_000, "kind": "loop", "path": p[0]})
        out.append({"id": "path|%s|rec-unbounded" % p[0], "src": prog_rec_unbounded(p), "step_budget": 5_000_000, "depth_limit": 1000, "step_vm_budget": 1_000_000, "kind": "rec-unbounded", "path": p[0]})
        out.append({"id": "path|%s|rec-%d" % (p[0], depth_fin), "src": prog_rec_finite(p, depth_fin), "step_budget": 200 * depth_fin + 1_000_000, "depth_limit": 10 * depth_fin, "step_vm_budget": 1_000_000, "kind": "rec-finite", "path": p[0], "depth": depth_fin})
        out.append({"id": "path|%s|rec-retry" % p[0], "src": prog_rec_retry(p), "step_budget": 20_000_000, "depth_limit": 1000, "step_vm_budget": 400_000_000, "kind": "rec-retry", "path": p[0]})
        out.append({"id": "path|%s|rec-50" % p[0], "src": prog_rec_finite(p, 50), "step_budget": 1_000_000, "depth_limit": 100_000, "step_vm_budget": 1_000_000, "kind": "rec-small", "path": p[0], "depth": 50})
    for name, tpl in ASYNC_PATHS:
        out.append({"id": "async|%s|loop" % name, "src": "function go(n) { for (;;) { } }\n" + tpl.replace("{A}", "1") + "\n'started'", "step_budget": 300_000, "depth_limit": 1000, "step_vm_budget": 1_000_000, "kind": "loop", "path": name})
        out.append({"id": "async|%s|rec-unbounded" % name, "src": "function go(n) { return 1 + go(n + 1); }\n" + tpl.replace("{A}", "1") + "\n'started'", "step_budget": 5_000_000, "depth_limit": 1000, "step_vm_budget": 1_000_000, "kind": "rec-unbounded", "path": name})
    for sname, expr in SIZED:
        for zn, z in SIZES:
            src = "var out; try { var r = %s; out = 'ok:' + (typeof r === 'string' || Array.isArray(r) ? 'len' + r.length : typeof r); } catch (e) { out = 'caught:' + (e && e.name); }\nout" % expr.replace("{N}", z)
            out.append({"id": "size|%s|%s" % (sname, zn), "src": src, "step_budget": 20_000_000, "depth_limit": 100_000, "step_vm_budget": 50_000_000, "kind": "size", "native": sname, "size": zn})
    for mname, expr in MUTATE:
        src = "var out; try { var r = %s; out = 'ok:' + (typeof r === 'string' || Array.isArray(r) ? 'len' + r.length : typeof r); } catch (e) { out = 'caught:' + (e && e.name); }\nout" % expr
        out.append({"id": "size|%s|reentrant" % mname, "src": src, "step_budget": 20_000_000, "depth_limit": 100_000, "step_vm_budget": 50_000_000, "kind": "size", "native": mname, "size": "reentrant"})
    for dname, setup, expr in DEEP:
        for n in ([1000, 30_000] if tier == "quick" else [1000, 10_000, 30_000, 100_000]):
            if dname == "deep-closure-chain" and n > 10_000:
                continue    # collector cost grows faster than linearly with the chain (minutes at 10^5): a cost matter (C14), every step still returns
            src = "%s\nvar out; try { out = 'ok:' + String(%s).length; } catch (e) { out = 'caught:' + (e && e.name); }\nout" % (setup.replace("{N}", str(n)), expr.replace("{N}", str(n)))
            out.append({"id": "deep|%s|%d" % (dname, n), "src": src, "step_budget": 400_000_000, "depth_limit": 100_000_000, "step_vm_budget": 400_000_000, "kind": "deep", "native": dname, "n": n})
    return out


def judge(c, o):
    """returns None if fine, else (aspect, detail)"""
    st = o.get("status", "")
    if st.startswith("death") or st == "hang" or st == "panic":
        return ("process-" + ("hang" if st == "hang" else "death" if st.startswith("death") else "panic"), "%s %s" % (st, o.get("msg", "")[:120]))
    k = c["kind"]
    if st == "step-unbounded":
        return ("step-unbounded", o.get("msg", ""))
    if k == "loop":
        if st == "host-stopped-steps":
            return None
        if st == "ok" and o.get("value") in ("s:undefined", "s:NaN") or (st == "ok" and c["id"].startswith("async|")):
            # the callee was never invoked (hook not supported): not a control question
            return ("hook-not-invoked", "completed with %s" % o.get("value"))
        if st == "err":
            return ("hook-error", "%s %s" % (o.get("err"), o.get("msg", "")[:80]))
        return ("unexpected", "status=%s value=%s" % (st, o.get("value")))
    if k == "rec-retry":
        if st in ("host-stopped-depth", "host-stopped-steps") or (st == "err" and o.get("err") == "RangeError"):
            return None
        if st == "ok":
            return ("hook-not-invoked", "completed with %s" % o.get("value"))
        return ("unexpected", "status=%s err=%s" % (st, o.get("err")))
    if k == "rec-unbounded":
        if st == "host-stopped-depth":
            return None
        if st == "host-stopped-steps":
            return ("depth-invisible", "recursion ran %d steps without call_depth() exceeding the limit (max seen %s)" % (o.get("steps", 0), o.get("max_depth")))
        if st == "err" and o.get("err") == "RangeError":
            return None     # surfaced as a catchable script error: the process and the host survive
        if st == "err":
            return ("recursion-error", "%s %s" % (o.get("err"), o.get("msg", "")[:80]))
        if st == "ok":
            return ("hook-not-invoked", "completed with %s" % o.get("value"))
        return ("unexpected", "status=%s" % st)
    if k in ("rec-finite", "rec-small"):
        if st == "ok" and o.get("value") == "s:%d" % c["depth"]:
            return None
        if st == "ok":
            # (at depth the implementation's RangeError may be swallowed by the path itself - a rejected promise, a failed coercion - and surface as a wrong value)
            return ("hook-not-invoked" if k == "rec-small" else "depth-limited-by-implementation", "value %s, expected %d" % (o.get("value"), c["depth"]))
        if st == "err":
            return ("depth-limited-by-implementation" if k == "rec-finite" else "hook-error", "%s %s" % (o.get("err"), o.get("msg", "")[:80]))
        if st.startswith("host-stopped"):
            return ("budget", st)
        return ("unexpected", "status=%s" % st)
    if k in ("size", "deep"):
        if st == "ok" and str(o.get("value", "")).startswith("s:"):
            if k == "size" and c["size"] == "2^16" and "caught" in o["value"] and c["native"] in ("String.repeat", "String.padStart", "String.padEnd", "new-Array", "Array-call", "Array.fill-sized", "Array.join-sized", "Array.from-length", "Array.length-assign"):
                return ("small-size-refused", o["value"])
            return None
        if st == "err":
            return ("uncatchable-error", "%s %s" % (o.get("err"), o.get("msg", "")[:80]))
        if st.startswith("host-stopped"):
            return None   # the host kept control: still stepping within budgets
        return ("unexpected", "status=%s" % st)
    return None


def run(tier, seed):
    chk = core.Check(PID, tier, seed, "exploration")
    cs = cases(tier)
    profiles = ["chk"] if tier == "quick" else ["chk", "rel"]
    total = 0
    table = {}
    good_paths = {}
    skipped_uncal = set()
    for prof in profiles:
        res = core.run_batch(cs, sub_args=("c06",), profile=prof, hang_s=60 if tier == "quick" else 240, as_gb=2, stack_kb=8192)
        # calibration: a path whose depth-50 recursion does not give 50 does not reach the callee on tsrun (C01's business)
        uncal = {c["path"] for c in cs if c["kind"] == "rec-small" and judge(c, res[c["id"]]) is not None}
        for c in cs:
            if c.get("path") in uncal and c["kind"] != "rec-small" and not c["id"].startswith("async|"):
                skipped_uncal.add(c["path"])
                continue
            o = res[c["id"]]
            total += 1
            v = judge(c, o)
            key = c["kind"]
            t = table.setdefault(key, {"cases": 0, "ok": 0, "bad": {}})
            t["cases"] += 1
            if v is None:
                t["ok"] += 1
                if c["kind"] in ("loop", "rec-unbounded", "rec-finite", "rec-retry"):
                    good_paths.setdefault(c["path"], set()).add(c["kind"])
                continue
            aspect, detail = v
            t["bad"][aspect] = t["bad"].get(aspect, 0) + 1
            if aspect in ("hook-not-invoked", "hook-error") and c["kind"] != "rec-small":
                # the path does not reach the callee on tsrun at all (a C01 matter, see rec-50 row): nothing to control
                continue
            if c["kind"] == "rec-small":
                # calibration row: tells whether the path works at all; failures are C01's business
                continue
            what = c.get("path") or c.get("native")
            cluster = {"loop": "path %s: a callee that loops forever never returns from one step()" % what,
                       "rec-unbounded": "path %s: unbounded recursion is not stoppable by the host's depth limit (%s)" % (what, aspect),
                       "rec-finite": "path %s: deep finite recursion fails (%s)" % (what, aspect),
                       "rec-retry": "path %s: retrying a refused deep call at the recursion limit (%s)" % (what, aspect),
                       "size": "%s with an oversized argument: %s" % (what, aspect),
                       "deep": "%s on a deep structure: %s" % (what, aspect)}[c["kind"]]
            chk.fail("%s|%s" % (prof, c["id"]), aspect, "%s [%s build]: %s: %s" % (c["id"], prof, aspect, detail[:160]), {"id": c["id"], "tier": tier, "profile": prof}, cluster=cluster)
    chk.coverage = {"evaluations": total, "cases": len(cs), "profiles": profiles, "paths": len(PATHS) + len(ASYNC_PATHS), "sized_natives": len(SIZED), "reentrant_mutation_programs": len(MUTATE), "sizes": [s[0] for s in SIZES], "deep_structures": len(DEEP),
                    "samples": [{"id": c["id"], "src": str(c.get("src", ""))[:400]} for c in (cs[len(cs) // 3], cs[len(cs) // 2], cs[-1])],
                    "distinct_nontrivial": sum(len(v) for v in good_paths.values()), "paths_fully_under_host_control": sorted(p for p, v in good_paths.items() if len(v) == 4), "paths_not_reaching_the_callee_on_tsrun": sorted(skipped_uncal), "table": table,
                    "rule": "every (re-entry path x body) pair of the table: body in {infinite loop, unbounded recursion through the same path, finite recursion of depth %d, depth 50 (calibration)}; host = step counter + call_depth() limit 1000, exactly the CLI's --timeout/--max-depth; a step may execute at most 10^6 VM instructions (hook counter); every (native x size) pair and every (native x deep structure x depth) pair under RLIMIT_AS 2 GiB and an 8 MiB stack, each case attributed to its own worker death/hang" % (3_000 if tier == "quick" else 30_000)}
    chk.assumptions = ["a path whose callee is not invoked at all on tsrun (hook unsupported) is not judged here", "bounded work = at most 10^6 VM instructions inside one step(); native work that executes no VM instruction is bounded by the hang limit only",
                       "an oversized request may fail with any catchable error or succeed; only death, hang, panic or an Err that escapes try/catch is a violation"]
    return chk.finish(exhaustive=True)


def replay(path):
    rp = json.load(open(path))
    c = [x for x in cases(rp.get("tier", "thorough")) if x["id"] == rp["id"]]
    if not c:
        raise core.MachineryError("unknown case " + rp["id"])
    c = c[0]
    o = core.run_batch([c], sub_args=("c06",), profile=rp.get("profile", "chk"), hang_s=240, as_gb=2)[c["id"]]
    print(c["src"])
    print(json.dumps(o)[:600])
    v = judge(c, o)
    print(v)
    if v is not None and v[0] not in ("hook-not-invoked", "hook-error"):
        print("VIOLATION property=C06 replay=%s" % path)
        return 1
    return 0
