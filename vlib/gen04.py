"""C04 generator: TypeScript run-time constructs and the JavaScript tsc is specified to emit for them.
The emit rules are implemented once here (= the reference model). Every generated item is
(id, ts_source, js_source, observer_names, quick?).  Both sources end with the same list of
observations joined by U+001E; only type-correct TypeScript is generated (the emit is specified
only for programs the compiler accepts)."""
import itertools
from . import prog

HELP = r"""
function __ks(o){ var k=Object.keys(o); k.sort(); return k; }
function __so(o){ if(o===null||(typeof o!=='object'&&typeof o!=='function'))return __s(o); var k=__ks(o), r=[]; for(var i=0;i<k.length;i++){ r.push(k[i]+':'+__s(o[k[i]])); } return '{'+r.join(',')+'}'; }
function __sl(a){ var r=[]; for(var i=0;i<a.length;i++){ r.push(typeof a[i]==='string'?a[i]:__s(a[i])); } r.sort(); return '['+r.join(',')+']'; }
function __fi(o){ var r=[]; for(var k in o){ r.push(k); } r.sort(); return '['+r.join(',')+']'; }
function __pn(o){ var k=Object.getOwnPropertyNames(o); k.sort(); return '['+k.join(',')+']'; }
var __o=[]; function __ob(f){ try { __o.push(f()); } catch(e){ __o.push(__cls(e)); } }
"""
SEP = "\x1e"


def program(decl, observers, ctx="top"):
    """observers: list of (name, expr) where expr yields a string."""
    obs = "".join("__ob(function(){ return %s; });\n" % e for _, e in observers)
    if ctx == "top":
        body = decl + "\n" + obs
    elif ctx == "fn":
        body = "(function(){\n" + decl + "\n" + obs + "})();\n"
    elif ctx == "block":
        body = "{\n" + decl + "\n" + obs + "}\n"
    else:
        raise ValueError(ctx)
    return prog.PRINTER + HELP + body + "__o.join('\\u001e')"


# ------------------------------------------------------------------ enums
NAMES = ["A", "B", "C", "D"]
KINDS_Q = ["auto", "n5", "neg", "str", "ref", "cexp", "len", "dup"]
KINDS_T = KINDS_Q + ["n0", "frac", "or", "strdup"]


def jsnum(v):
    if isinstance(v, float) and v == int(v):
        v = int(v)
    return repr(v)


def jskey(v):
    """property key (string) JavaScript derives from number v"""
    return jsnum(v)


class EnumShape:
    """members: list of kinds; split: index where a second `enum E` block starts (None = one block)."""

    def __init__(self, kinds, split=None, const=False):
        self.kinds, self.split, self.const = kinds, split, const
        self.valid = True
        self.members = []     # (name, ts_init or None, js_stmt, value or None (runtime-computed), is_num_const)
        self.build()

    def build(self):
        prev = None        # previous member value if numeric constant, "first" at block start, else None
        blocks = [[]]
        nums = []          # earlier numeric constant members (name, value)
        strs = []
        prev = "first"
        omitted_first = 0
        for i, k in enumerate(self.kinds):
            name = NAMES[i]
            if self.split is not None and i == self.split:
                blocks.append([])
                prev = "first"
            first_in_block = len(blocks[-1]) == 0
            ts, val, const = None, None, True
            if k == "auto":
                if prev is None:
                    self.valid = False
                    return
                val = 0 if prev == "first" else prev + 1
                if first_in_block:
                    omitted_first += 1
            elif k == "n0":
                ts, val = "0", 0
            elif k == "n5":
                ts, val = "5", 5
            elif k == "neg":
                ts, val = "-1", -1
            elif k == "frac":
                ts, val = "1.5", 1.5
            elif k == "str":
                ts, val = '"s%d"' % i, "s%d" % i
            elif k == "strdup":
                if not strs:
                    self.valid = False
                    return
                ts, val = '"%s"' % strs[0][1], strs[0][1]
            elif k == "ref":
                if not nums:
                    self.valid = False
                    return
                rn, rv = nums[-1]
                ts, val = ("E." + rn) if self.split is not None else rn, rv
            elif k == "cexp":
                ts, val = "1 << 2", 4
            elif k == "or":
                ints = [(n, v) for n, v in nums if isinstance(v, int)]
                if not ints:
                    self.valid = False
                    return
                rn, rv = ints[0]
                ts, val = "%s | 2" % (("E." + rn) if self.split is not None else rn), rv | 2
            elif k == "len":
                if self.const:
                    self.valid = False
                    return
                ts, val, const = '"ab".length', 2, False
            elif k == "dup":
                if not nums:
                    self.valid = False
                    return
                ts, val = jsnum(nums[0][1]), nums[0][1]
            else:
                raise ValueError(k)
            isnum = not isinstance(val, str)
            if isnum:
                if const:
                    js = 'E[E["%s"] = %s] = "%s";' % (name, jsnum(val), name)
                    nums.append((name, val))
                    prev = val
                else:
                    js = 'E[E["%s"] = %s] = "%s";' % (name, ts, name)
                    prev = None
            else:
                js = 'E["%s"] = "%s";' % (name, val)
                strs.append((name, val))
                prev = None
            blocks[-1].append((name, ts, js))
            self.members.append((name, val, isnum))
        if omitted_first > 1:
            self.valid = False
        self.blocks = blocks

    def ts_decl(self):
        kw = "const enum" if self.const else "enum"
        return "\n".join("%s E { %s }" % (kw, ", ".join(n if t is None else "%s = %s" % (n, t) for n, t, _ in b)) for b in self.blocks)

    def js_decl(self, ctx):
        if self.const:
            return ""
        iife = "\n".join("(function (E) {\n%s\n})(E || (E = {}));" % "\n".join("    " + j for _, _, j in b) for b in self.blocks)
        return ("var E;\n" if ctx == "top" else "let E;\n") + iife

    def id(self):
        return ",".join(self.kinds) + ("/split%d" % self.split if self.split is not None else "") + ("/const" if self.const else "")


def enum_observers(sh):
    """list of (name, ts_expr, js_expr)"""
    ms = sh.members
    names = [m[0] for m in ms]
    O = []

    def both(name, e):
        O.append((name, e, e))
    if sh.const:
        # only member reads are specified (the object may be erased): tsc inlines the values
        def lit(v):
            return '"%s"' % v if isinstance(v, str) else ("(%s)" % jsnum(v))
        O.append(("fwd", "__s([%s])" % ",".join("E." + n for n in names), "__s([%s])" % ",".join(lit(m[1]) for m in ms)))
        O.append(("fwdidx", "__s([%s])" % ",".join('E["%s"]' % n for n in names), "__s([%s])" % ",".join(lit(m[1]) for m in ms)))
        O.append(("typeof", "__s([%s])" % ",".join("typeof E." + n for n in names), "__s([%s])" % ",".join("typeof " + lit(m[1]) for m in ms)))
        O.append(("arith", "__s([%s])" % ",".join("(E.%s as any) + 1" % n for n in names), "__s([%s])" % ",".join(lit(m[1]) + " + 1" for m in ms)))
        O.append(("switch", "(function(x: E){ switch(x){ %s } return 'none'; })(E.%s)" % (" ".join("case E.%s: return '%s';" % (n, n) for n in names), names[-1]),
                  "(function(x){ switch(x){ %s } return 'none'; })(%s)" % (" ".join("case %s: return '%s';" % (lit(m[1]), m[0]) for m in ms), lit(ms[-1][1]))))
        return O
    numvals = []
    for m in ms:
        if m[2] and m[1] not in numvals:
            numvals.append(m[1])
    both("fwd", "__s([%s])" % ",".join("E." + n for n in names))
    both("fwdidx", "__s([%s])" % ",".join('E["%s"]' % n for n in names))
    if numvals:
        both("rev", "__s([%s])" % ",".join("E[%s]" % jsnum(v) for v in numvals))
        both("revstr", "__s([%s])" % ",".join('E["%s"]' % jskey(v) for v in numvals))
    O.append(("miss", '__s([(E as any).Z, E[99], (E as any)["s0"], (E as any)["s1"], (E as any)["toString"]===Object.prototype.toString])', '__s([E.Z, E[99], E["s0"], E["s1"], E["toString"]===Object.prototype.toString])'))
    both("keys", "__sl(Object.keys(E))")
    both("nkeys", "__s(Object.keys(E).length)")
    both("values", "__sl(Object.values(E))")
    both("entries", "__sl(Object.entries(E).map(function(p){ return p[0]+'='+__s(p[1]); }))")
    both("forin", "__fi(E)")
    both("names", "__pn(E)")
    both("json", "__so(JSON.parse(JSON.stringify(E)))")
    both("spread", "__so({...E})")
    both("assign", "__so(Object.assign({}, E))")
    both("in", "__s([%s, 'Z' in E, 99 in E])" % ", ".join(["'%s' in E" % n for n in names] + ["%s in E" % jsnum(v) for v in numvals] + ["'%s' in E" % jskey(v) for v in numvals]))
    both("hasown", "__s([%s])" % ", ".join(["E.hasOwnProperty('%s')" % n for n in names] + ["Object.prototype.hasOwnProperty.call(E, '%s')" % jskey(v) for v in numvals] + ["E.hasOwnProperty('Z')"]))
    both("desc", "__so(Object.getOwnPropertyDescriptor(E, '%s'))" % names[0])
    if numvals:
        both("descrev", "__so(Object.getOwnPropertyDescriptor(E, '%s'))" % jskey(numvals[0]))
    both("typeof", "__s([typeof E, Object.getPrototypeOf(E)===Object.prototype, Array.isArray(E), String(E), Object.isFrozen(E), Object.isExtensible(E), E instanceof Object])")
    both("typeofm", "__s([%s])" % ",".join("typeof E." + n for n in names))
    O.append(("arith", "__s([%s])" % ",".join("(E.%s as any) + 1" % n for n in names), "__s([%s])" % ",".join("E.%s + 1" % n for n in names)))
    O.append(("param", "(function(x: E): string { return __s(x); })(E.%s)" % names[0], "(function(x){ return __s(x); })(E.%s)" % names[0]))
    both("alias", "(function(){ var F = E; return __s([F === E, F.%s]); })()" % names[-1])
    if sh.split is not None:
        both("identity", "__s(__e1 === E)")
    # mutating observers last (the enum object is an ordinary object in the emit)
    # (reads after the write go through a computed key: some transpilers inline `E.A` reads of constant members)
    O.append(("m-assign", "(function(){ var k: any = '%s'; (E as any)[k] = 99; return __s([(E as any)[k], E[99]%s]); })()" % (names[0], "".join(", E[%s]" % jsnum(v) for v in numvals[:1])),
              "(function(){ var k = '%s'; E[k] = 99; return __s([E[k], E[99]%s]); })()" % (names[0], "".join(", E[%s]" % jsnum(v) for v in numvals[:1]))))
    O.append(("m-add", "(function(){ (E as any).Q = 1; return __sl(Object.keys(E)); })()", "(function(){ E.Q = 1; return __sl(Object.keys(E)); })()"))
    O.append(("m-delete", "(function(){ var r = delete (E as any).%s; return __s(r) + __sl(Object.keys(E)); })()" % names[-1], "(function(){ var r = delete E.%s; return __s(r) + __sl(Object.keys(E)); })()" % names[-1]))
    return O


def enum_items(tier):
    kinds = KINDS_Q if tier == "quick" else KINDS_T
    maxn = 3
    out = []
    shapes = []
    for n in range(1, maxn + 1):
        for ks in itertools.product(kinds, repeat=n):
            shapes.append(list(ks))
    # structured n=4: every kind in every position, other positions auto / n5 / str
    fill = ["auto", "n5", "str"]
    seen = set()
    for pos in range(4):
        for k in kinds:
            for f in (fill if tier != "quick" else fill[:2]):
                ks = [f] * 4
                ks[pos] = k
                if tuple(ks) not in seen:
                    seen.add(tuple(ks))
                    shapes.append(ks)
    if tier != "quick":
        for a, b in itertools.product(kinds, repeat=2):
            for ks in (["n5", a, b, "auto"], ["auto", a, "auto", b]):
                if tuple(ks) not in seen:
                    seen.add(tuple(ks))
                    shapes.append(ks)
    for ks in shapes:
        variants = [(None, False)] + [(s, False) for s in range(1, len(ks))] + [(None, True)]
        for split, const in variants:
            sh = EnumShape(ks, split, const)
            if not sh.valid:
                continue
            ctxs = ["top"] if (split is not None or const) else ["top", "fn", "block"]
            if tier == "quick" and len(ks) == 3:
                ctxs = ["top"]
            for ctx in ctxs:
                obs = enum_observers(sh)
                tsd, jsd = sh.ts_decl(), sh.js_decl(ctx)
                if split is not None:
                    # identity across merged blocks: capture the object between the two declarations
                    b0 = "enum E { %s }" % ", ".join(n if t is None else "%s = %s" % (n, t) for n, t, _ in sh.blocks[0])
                    b1 = "enum E { %s }" % ", ".join(n if t is None else "%s = %s" % (n, t) for n, t, _ in sh.blocks[1])
                    tsd = b0 + "\nvar __e1 = E;\n" + b1
                    j = sh.js_decl(ctx).split("\n(function (E) {")
                    jsd = j[0] + "\n(function (E) {" + j[1] + "\nvar __e1 = E;\n(function (E) {" + j[2]
                out.append(("enum:%s:%s" % (sh.id(), ctx), program(tsd, [(n, t) for n, t, _ in obs], ctx), program(jsd, [(n, j) for n, _, j in obs], ctx), [n for n, _, _ in obs],
                            {"group": "enum", "kinds": ks, "split": split, "const": const, "ctx": ctx}))
    # hand-written extras: quoted member names, enum + namespace merging, enum as object key/value, string enum only
    extras = [
        ("quoted", 'enum E { "a-b" = 1, "c d", plain }', 'var E;\n(function (E) {\n E[E["a-b"] = 1] = "a-b";\n E[E["c d"] = 2] = "c d";\n E[E["plain"] = 3] = "plain";\n})(E || (E = {}));',
         [("k", "__sl(Object.keys(E))"), ("v", '__s([E["a-b"], E["c d"], E.plain, E[1], E[2], E[3]])')]),
        ("selfqual", "enum E { A = 2, B = E.A * 3, C = B + A, D }", 'var E;\n(function (E) {\n E[E["A"] = 2] = "A";\n E[E["B"] = 6] = "B";\n E[E["C"] = 8] = "C";\n E[E["D"] = 9] = "D";\n})(E || (E = {}));',
         [("k", "__sl(Object.keys(E))"), ("v", "__s([E.A, E.B, E.C, E.D, E[2], E[6], E[8], E[9]])")]),
        ("outerconst", "const k = 3; enum E { A = k, B = k * 2 }", 'const k = 3;\nvar E;\n(function (E) {\n E[E["A"] = k] = "A";\n E[E["B"] = k * 2] = "B";\n})(E || (E = {}));',
         [("k", "__sl(Object.keys(E))"), ("v", "__s([E.A, E.B, E[3], E[6]])")]),
        ("fncall", "function g(){ return 7; } enum E { A = g(), B = g() + 1 }", 'function g(){ return 7; }\nvar E;\n(function (E) {\n E[E["A"] = g()] = "A";\n E[E["B"] = g() + 1] = "B";\n})(E || (E = {}));',
         [("k", "__sl(Object.keys(E))"), ("v", "__s([E.A, E.B, E[7], E[8]])")]),
        ("unary", "enum E { A = ~1, B = -A, C = +B, D = (1 + 2) * 3 % 4, F = 2 ** 3, G = 7 >> 1, H = 7 >>> 1, I = 6 & 3, J = 6 ^ 3 }",
         'var E;\n(function (E) {\n' + "\n".join(' E[E["%s"] = %d] = "%s";' % (n, v, n) for n, v in [("A", -2), ("B", 2), ("C", 2), ("D", 1), ("F", 8), ("G", 3), ("H", 3), ("I", 2), ("J", 5)]) + "\n})(E || (E = {}));",
         [("k", "__sl(Object.keys(E))"), ("v", "__s([E.A, E.B, E.C, E.D, E.F, E.G, E.H, E.I, E.J, E[2], E[-2], E[8], E[3], E[5], E[1]])")]),
        ("strconcat", 'enum E { A = "x", B = "y" + "z", C = `t` }', 'var E;\n(function (E) {\n E["A"] = "x";\n E["B"] = "yz";\n E["C"] = "t";\n})(E || (E = {}));',
         [("k", "__sl(Object.keys(E))"), ("v", '__s([E.A, E.B, E.C, (E as any)["x"], (E as any)["yz"]])', '__s([E.A, E.B, E.C, E["x"], E["yz"]])')]),
        ("three-blocks", "enum E { A }\nenum E { B = 10 }\nenum E { C = 20, D }", 'var E;\n(function (E) {\n E[E["A"] = 0] = "A";\n})(E || (E = {}));\n(function (E) {\n E[E["B"] = 10] = "B";\n})(E || (E = {}));\n(function (E) {\n E[E["C"] = 20] = "C";\n E[E["D"] = 21] = "D";\n})(E || (E = {}));',
         [("k", "__sl(Object.keys(E))"), ("v", "__s([E.A, E.B, E.C, E.D, E[0], E[10], E[20], E[21]])")]),
        ("enum-ns-merge", "enum E { A = 1, B }\nnamespace E { export function parse(s: string): E { return (E as any)[s]; } export const extra = 5; }",
         'var E;\n(function (E) {\n E[E["A"] = 1] = "A";\n E[E["B"] = 2] = "B";\n})(E || (E = {}));\n(function (E) {\n function parse(s) { return E[s]; }\n E.parse = parse;\n E.extra = 5;\n})(E || (E = {}));',
         [("k", "__sl(Object.keys(E))"), ("v", "__s([E.parse('B'), E.extra, E[2], typeof E.parse])")]),
        ("as-key", "enum E { A, B }\nvar o: any = {}; o[E.A] = 'x'; o[E[1]] = 'y';", 'var E;\n(function (E) {\n E[E["A"] = 0] = "A";\n E[E["B"] = 1] = "B";\n})(E || (E = {}));\nvar o = {}; o[E.A] = "x"; o[E[1]] = "y";',
         [("o", "__so(o)")]),
        ("two-enums", "enum E { A, B }\nenum F { A = E.B, C = E.A + 10, D }", 'var E;\n(function (E) {\n E[E["A"] = 0] = "A";\n E[E["B"] = 1] = "B";\n})(E || (E = {}));\nvar F;\n(function (F) {\n F[F["A"] = 1] = "A";\n F[F["C"] = 10] = "C";\n F[F["D"] = 11] = "D";\n})(F || (F = {}));',
         [("k", "__sl(Object.keys(F))"), ("v", "__s([F.A, F.C, F.D, F[1], F[10], F[11], E.A])")]),
        ("shadow-in-fn", "enum E { A = 1 }\nfunction f(){ enum E { A = 2, B } return __s([E.A, E.B, E[2]]); }", 'var E;\n(function (E) {\n E[E["A"] = 1] = "A";\n})(E || (E = {}));\nfunction f(){ let E; (function (E) {\n E[E["A"] = 2] = "A";\n E[E["B"] = 3] = "B";\n})(E || (E = {})); return __s([E.A, E.B, E[2]]); }',
         [("f", "f()"), ("outer", "__s([E.A, E[1], (E as any).B])", "__s([E.A, E[1], E.B])")]),
        ("member-named-like-builtin", "enum E { toString = 1, length, name, constructor }", 'var E;\n(function (E) {\n E[E["toString"] = 1] = "toString";\n E[E["length"] = 2] = "length";\n E[E["name"] = 3] = "name";\n E[E["constructor"] = 4] = "constructor";\n})(E || (E = {}));',
         [("k", "__sl(Object.keys(E))"), ("v", "__s([E.toString, E.length, E.name, E.constructor, E[1], E[4]])")]),
        ("computed-string-reverse", 'var s = "q"; enum E { A = s.length, B = A * 2 }', 'var s = "q";\nvar E;\n(function (E) {\n E[E["A"] = s.length] = "A";\n E[E["B"] = E.A * 2] = "B";\n})(E || (E = {}));',
         [("k", "__sl(Object.keys(E))"), ("v", "__s([E.A, E.B, E[1], E[2]])")]),
        ("declare-later-use-in-fn", "function g(){ return __s([E.A, E[0]]); }\nenum E { A }", 'function g(){ return __s([E.A, E[0]]); }\nvar E;\n(function (E) {\n E[E["A"] = 0] = "A";\n})(E || (E = {}));',
         [("g", "g()")]),
    ]
    IIFE = lambda n, body: "let %s;\n(function (%s) {\n%s\n})(%s || (%s = {}));" % (n, n, body, n, n)
    extras += [
        ("sibling-blocks", "var r: any[] = [];\n{ enum E { A = 1 } r.push(E.A, E[1], Object.keys(E).length); }\n{ enum E { B = 2 } r.push(E.B, E[2], (E as any).A, Object.keys(E).length); }",
         "var r = [];\n{ " + IIFE("E", ' E[E["A"] = 1] = "A";') + " r.push(E.A, E[1], Object.keys(E).length); }\n{ " + IIFE("E", ' E[E["B"] = 2] = "B";') + " r.push(E.B, E[2], E.A, Object.keys(E).length); }", [("v", "__s(r)")]),
        ("if-else-arms", "var r: any[] = [];\nfor (const c of [true, false]) { if (c) { enum E { A = 1 } r.push(E.A, Object.keys(E).length); } else { enum E { A = 5, B } r.push(E.A, E.B, Object.keys(E).length); } }",
         "var r = [];\nfor (const c of [true, false]) { if (c) { " + IIFE("E", ' E[E["A"] = 1] = "A";') + " r.push(E.A, Object.keys(E).length); } else { " + IIFE("E", ' E[E["A"] = 5] = "A";\n E[E["B"] = 6] = "B";') + " r.push(E.A, E.B, Object.keys(E).length); } }", [("v", "__s(r)")]),
        ("sibling-blocks-under-outer-enum", "enum E { Low, High }\nvar r: any[] = [];\n{ enum E { A = 7 } r.push(E.A, (E as any).Low); }\n{ enum E { B = 0 } r.push(E.B, E[0], (E as any).A); }\nr.push(E.Low, E.High, E[0], Object.keys(E).length);",
         "var E;\n(function (E) {\n E[E[\"Low\"] = 0] = \"Low\";\n E[E[\"High\"] = 1] = \"High\";\n})(E || (E = {}));\nvar r = [];\n{ " + IIFE("E", ' E[E["A"] = 7] = "A";') + " r.push(E.A, E.Low); }\n{ " + IIFE("E", ' E[E["B"] = 0] = "B";') + " r.push(E.B, E[0], E.A); }\nr.push(E.Low, E.High, E[0], Object.keys(E).length);", [("v", "__s(r)")]),
        ("merge-inside-second-sibling-block", "var r: any[] = [];\n{ enum E { A = 1 } r.push(Object.keys(E).length); }\n{ enum E { B = 2 } enum E { C = 3 } r.push(E.B, E.C, (E as any).A, Object.keys(E).length); }",
         "var r = [];\n{ " + IIFE("E", ' E[E["A"] = 1] = "A";') + " r.push(Object.keys(E).length); }\n{ let E;\n(function (E) {\n E[E[\"B\"] = 2] = \"B\";\n})(E || (E = {}));\n(function (E) {\n E[E[\"C\"] = 3] = \"C\";\n})(E || (E = {})); r.push(E.B, E.C, E.A, Object.keys(E).length); }", [("v", "__s(r)")]),
        ("loop-body-enum", "var r: any[] = [];\nfor (let i = 0; i < 3; i++) { enum E { A = i * 2, B = A + 1 } r.push(E.A, E.B, Object.keys(E).length); }",
         "var r = [];\nfor (let i = 0; i < 3; i++) { " + IIFE("E", ' E[E["A"] = i * 2] = "A";\n E[E["B"] = E.A + 1] = "B";') + " r.push(E.A, E.B, Object.keys(E).length); }", [("v", "__s(r)")]),
        ("sibling-functions", "function f1() { enum E { A = 1 } return [E.A, Object.keys(E).length]; }\nfunction f2() { enum E { B = 2 } return [E.B, (E as any).A, Object.keys(E).length]; }",
         "function f1() { " + IIFE("E", ' E[E["A"] = 1] = "A";') + " return [E.A, Object.keys(E).length]; }\nfunction f2() { " + IIFE("E", ' E[E["B"] = 2] = "B";') + " return [E.B, E.A, Object.keys(E).length]; }", [("v", "__s([f1(), f2(), f1()])")]),
        ("nested-block-after-sibling", "var r: any[] = [];\n{ { enum E { A = 1 } r.push(E.A); } enum E { Z = 9 } r.push(E.Z, (E as any).A, Object.keys(E).length); }",
         "var r = [];\n{ { " + IIFE("E", ' E[E["A"] = 1] = "A";') + " r.push(E.A); } " + IIFE("E", ' E[E["Z"] = 9] = "Z";') + " r.push(E.Z, E.A, Object.keys(E).length); }", [("v", "__s(r)")]),
    ]
    for name, ts, js, obs in extras:
        o3 = [(o[0], o[1], o[2] if len(o) > 2 else o[1]) for o in obs]
        out.append(("enumx:" + name, program(ts, [(n, t) for n, t, _ in o3]), program(js, [(n, j) for n, _, j in o3]), [n for n, _, _ in o3], {"group": "enumx", "name": name}))
    return out


# ------------------------------------------------------------------ namespaces
# A namespace body is a list of items; each item is (kind, exported?).  Values are small integers
# built from references to everything in scope, so a wrong binding shows up in the value.
NS_ITEMS = ["const", "let", "fn", "class", "ns", "enum"]


class NsGen:
    """Builds the TS text and the tsc emit of a namespace tree from a spec:
    spec = [ (kind, exported, sub) ... ] ; sub = nested spec for kind 'ns'."""

    def __init__(self):
        self.ctr = 0

    def fresh(self, p):
        self.ctr += 1
        return "%s%d" % (p, self.ctr)


def ns_render(name, spec, outer_scope, path, depth=0, first_block=True, param=None):
    """returns (ts_lines, js_lines, scope) where scope maps visible identifier -> (js reference text, kind).
    outer_scope: identifiers visible from enclosing namespaces / earlier merged blocks (already rewritten)."""
    ts, js = [], []
    scope = dict(outer_scope)
    local = {}
    p = param or name
    idx = 0
    for item in spec:
        kind, exported = item[0], item[1]
        idx += 1
        nm = item[2]
        refs = [(i, r) for i, r in scope.items() if r[1] in ("const", "let", "fn")]
        # expression summing (up to 3) visible names, innermost last
        use = refs[-3:]
        e_ts = " + ".join([str(idx)] + [(i + "()" if r[1] == "fn" else i) for i, r in use])
        e_js = " + ".join([str(idx)] + [(r[0] + "()" if r[1] == "fn" else r[0]) for i, r in use])
        ex = "export " if exported else ""
        if kind in ("const", "let"):
            ts.append("%s%s %s = %s;" % (ex, kind, nm, e_ts))
            if exported:
                js.append("%s.%s = %s;" % (p, nm, e_js))
                scope[nm] = ("%s.%s" % (p, nm), kind)
            else:
                js.append("%s %s = %s;" % (kind, nm, e_js))
                scope[nm] = (nm, kind)
        elif kind == "fn":
            ts.append("%sfunction %s() { return %s; }" % (ex, nm, e_ts))
            js.append("function %s() { return %s; }" % (nm, e_js))
            if exported:
                js.append("%s.%s = %s;" % (p, nm, nm))
            scope[nm] = (nm, "fn")
            local[nm] = exported
        elif kind == "class":
            ts.append("%sclass %s { m() { return %s; } static s = %s; }" % (ex, nm, e_ts, e_ts))
            js.append("class %s { m() { return %s; } static s = %s; }" % (nm, e_js, e_js))
            if exported:
                js.append("%s.%s = %s;" % (p, nm, nm))
            scope[nm] = (nm, "class")
        elif kind == "enum":
            ts.append("%senum %s { X = %d, Y }" % (ex, nm, idx))
            js.append("let %s;" % nm)
            js.append('(function (%s) { %s[%s["X"] = %d] = "X"; %s[%s["Y"] = %d] = "Y"; })(%s);' % (nm, nm, nm, idx, nm, nm, idx + 1, ("%s = %s.%s || (%s.%s = {})" % (nm, p, nm, p, nm)) if exported else "%s || (%s = {})" % (nm, nm)))
            scope[nm] = (nm, "enum")
        elif kind == "ns":
            sub = item[3]
            t2, j2, _ = ns_render(nm, sub, scope, path + [nm], depth + 1)
            ts.append("%snamespace %s {" % (ex, nm))
            ts.extend("  " + x for x in t2)
            ts.append("}")
            js.append("let %s;" % nm)
            js.append("(function (%s) {" % nm)
            js.extend("  " + x for x in j2)
            js.append("})(%s);" % (("%s = %s.%s || (%s.%s = {})" % (nm, p, nm, p, nm)) if exported else "%s || (%s = {})" % (nm, nm)))
            scope[nm] = (nm, "ns")
    return ts, js, scope


def ns_program(blocks):
    """blocks: list of specs for `namespace N` declared that many times (merging)."""
    ts, js = [], ["var N;"]
    exported_scope = {}
    for b in blocks:
        t, j, sc = ns_render("N", b, exported_scope, ["N"])
        ts.append("namespace N {")
        ts.extend("  " + x for x in t)
        ts.append("}")
        js.append("(function (N) {")
        js.extend("  " + x for x in j)
        js.append("})(N || (N = {}));")
        # later blocks see only what earlier blocks exported, always as N.<name>
        for it in b:
            if it[1]:
                exported_scope[it[2]] = ("N." + it[2], it[0])
    return "\n".join(ts), "\n".join(js)


def ns_observers(blocks):
    O = []

    def both(n, e):
        O.append((n, e, e))

    def walk(spec, ts_path, js_path):
        both("keys:" + ts_path, "__sl(Object.keys(%s))" % ts_path)
        both("names:" + ts_path, "__pn(%s)" % ts_path)
        for it in spec:
            kind, exported, nm = it[0], it[1], it[2]
            acc_ts = "(%s as any).%s" % (ts_path, nm)
            acc_js = "%s.%s" % (js_path, nm)
            if not exported:
                O.append(("hidden:%s.%s" % (ts_path, nm), "__s(typeof %s)" % acc_ts, "__s(typeof %s)" % acc_js))
                continue
            if kind in ("const", "let"):
                O.append(("val:%s.%s" % (ts_path, nm), "__s(%s)" % acc_ts, "__s(%s)" % acc_js))
            elif kind == "fn":
                O.append(("call:%s.%s" % (ts_path, nm), "__s(%s())" % acc_ts, "__s(%s())" % acc_js))
            elif kind == "class":
                O.append(("class:%s.%s" % (ts_path, nm), "__s([new %s().m(), %s.s, %s.name])" % (acc_ts, acc_ts, acc_ts), "__s([new %s().m(), %s.s, %s.name])" % (acc_js, acc_js, acc_js)))
            elif kind == "enum":
                O.append(("enum:%s.%s" % (ts_path, nm), "__so(%s)" % acc_ts, "__so(%s)" % acc_js))
            elif kind == "ns":
                walk(it[3], "%s.%s" % (ts_path, nm), "%s.%s" % (js_path, nm))
    seen = set()
    for b in blocks:
        walk([it for it in b if (it[2] not in seen)], "N", "N")
        seen |= {it[2] for it in b}
    both("typeof", "__s([typeof N, Object.getPrototypeOf(N)===Object.prototype, Object.isFrozen(N)])")
    both("desc", "__s(Object.keys(N).map(function(k){ var d = Object.getOwnPropertyDescriptor(N, k); return k + (d.writable?'w':'-') + (d.enumerable?'e':'-') + (d.configurable?'c':'-'); }).sort())")
    # exported variables are properties: a write from outside is seen by code inside, and vice versa
    top = [it for b in blocks for it in b]
    vars_ = [it for it in top if it[1] and it[0] in ("let", "const")]
    fns = [it for it in top if it[1] and it[0] == "fn"]
    if vars_ and fns:
        v = vars_[0][2]
        O.append(("m-extwrite", "(function(){ (N as any).%s = 1000; return __s([%s]); })()" % (v, ", ".join("N.%s()" % f[2] for f in fns)),
                  "(function(){ N.%s = 1000; return __s([%s]); })()" % (v, ", ".join("N.%s()" % f[2] for f in fns))))
    if fns:
        f = fns[0][2]
        O.append(("m-fnreplace", "(function(){ (N as any).%s = function(){ return -5; }; return __s([%s]); })()" % (f, ", ".join("N.%s()" % g[2] for g in fns)),
                  "(function(){ N.%s = function(){ return -5; }; return __s([%s]); })()" % (f, ", ".join("N.%s()" % g[2] for g in fns))))
    return O


def ns_specs(tier):
    """All item lists of length <= L over (kind, exported), names by position; nested namespace bodies from a small menu."""
    kinds1 = [("const", True), ("const", False), ("let", True), ("fn", True), ("fn", False), ("class", True), ("enum", True), ("ns", True), ("ns", False)]
    inner_menus = [
        [("const", True, "ia"), ("fn", True, "ifn")],
        [("const", False, "ih"), ("fn", True, "ifn"), ("ns", True, "deep", [("const", True, "da"), ("fn", True, "dfn")])],
    ]
    L = 2 if tier == "quick" else 3
    specs = []
    for n in range(1, L + 1):
        for combo in itertools.product(range(len(kinds1)), repeat=n):
            for menu_i in range(len(inner_menus)):
                uses_ns = any(kinds1[c][0] == "ns" for c in combo)
                if not uses_ns and menu_i > 0:
                    continue
                spec = []
                for i, c in enumerate(combo):
                    k, ex = kinds1[c]
                    nm = "%s%d" % ({"const": "c", "let": "v", "fn": "f", "class": "K", "enum": "En", "ns": "M"}[k], i)
                    spec.append((k, ex, nm, inner_menus[menu_i]) if k == "ns" else (k, ex, nm))
                specs.append(spec)
    return specs


def ns_items(tier):
    out = []
    specs = ns_specs(tier)
    for si, spec in enumerate(specs):
        variants = [[spec]]
        if len(spec) >= 2:
            for cut in range(1, len(spec)):
                variants.append([spec[:cut], spec[cut:]])   # merged blocks
        for vi, blocks in enumerate(variants):
            ts, js = ns_program(blocks)
            obs = ns_observers(blocks)
            sid = "|".join(",".join(("+" if it[1] else "-") + it[0] + ("{%d}" % len(it[3]) if it[0] == "ns" else "") for it in b) for b in blocks)
            out.append(("ns:" + sid, program(ts, [(n, t) for n, t, _ in obs]), program(js, [(n, j) for n, _, j in obs]), [n for n, _, _ in obs], {"group": "ns", "spec": sid}))
    extras = [
        ("dotted", "namespace A.B.C { export const x = 1; export function f() { return x + 1; } }",
         "var A;\n(function (A) {\n let B;\n (function (B) {\n  let C;\n  (function (C) {\n   C.x = 1;\n   function f() { return C.x + 1; }\n   C.f = f;\n  })(C = B.C || (B.C = {}));\n })(B = A.B || (A.B = {}));\n})(A || (A = {}));",
         [("v", "__s([A.B.C.x, A.B.C.f(), Object.keys(A), Object.keys(A.B), Object.keys(A.B.C).sort()])")]),
        ("fn-merge", "function F() { return F.k + 1; }\nnamespace F { export const k = 41; export function g() { return F(); } }",
         "function F() { return F.k + 1; }\n(function (F) {\n F.k = 41;\n function g() { return F(); }\n F.g = g;\n})(F || (F = {}));",
         [("v", "__s([F(), F.k, F.g(), typeof F, Object.keys(F).sort()])")]),
        ("class-merge", "class K { static make() { return new K(); } v = K.dflt; }\nnamespace K { export const dflt = 9; export function h() { return K.make().v; } }",
         "class K { static make() { return new K(); } v = K.dflt; }\n(function (K) {\n K.dflt = 9;\n function h() { return K.make().v; }\n K.h = h;\n})(K || (K = {}));",
         [("v", "__s([K.dflt, K.h(), new K().v, typeof K, Object.keys(K).sort()])")]),
        ("shadow-outer", "var x = 1;\nnamespace N { export var x = 2; export function f() { return x; } }\nnamespace N { export function g() { return x; } }",
         "var x = 1;\nvar N;\n(function (N) {\n N.x = 2;\n function f() { return N.x; }\n N.f = f;\n})(N || (N = {}));\n(function (N) {\n function g() { return N.x; }\n N.g = g;\n})(N || (N = {}));",
         [("v", "__s([x, N.x, N.f(), N.g()])"), ("m", "(function(){ N.x = 7; return __s([x, N.f(), N.g()]); })()")]),
        ("hidden-not-shared", "namespace N { const h = 1; export function f() { return h; } }\nvar h = 50;\nnamespace N { export function g() { return h; } }",
         "var N;\n(function (N) {\n const h = 1;\n function f() { return h; }\n N.f = f;\n})(N || (N = {}));\nvar h = 50;\n(function (N) {\n function g() { return h; }\n N.g = g;\n})(N || (N = {}));",
         [("v", "__s([N.f(), N.g(), typeof (N as any).h])", "__s([N.f(), N.g(), typeof N.h])")]),
        ("alias-import", "namespace N { export namespace M { export const q = 3; } }\nimport Q = N.M;\nvar r = Q.q;",
         "var N;\n(function (N) {\n let M;\n (function (M) {\n  M.q = 3;\n })(M = N.M || (N.M = {}));\n})(N || (N = {}));\nvar Q = N.M;\nvar r = Q.q;",
         [("v", "__s([r, Q === N.M])")]),
        ("exported-destructure", "namespace N { export const [a, b] = [1, 2]; export const { c, d: e } = { c: 3, d: 4 }; export function s() { return a + b + c + e; } }",
         "var N;\n(function (N) {\n var _a, _b;\n _a = [1, 2], N.a = _a[0], N.b = _a[1];\n _b = { c: 3, d: 4 }, N.c = _b.c, N.e = _b.d;\n function s() { return N.a + N.b + N.c + N.e; }\n N.s = s;\n})(N || (N = {}));",
         [("v", "__s([N.a, N.b, N.c, N.e, N.s(), Object.keys(N).sort()])")]),
        ("uninit-export", "namespace N { export let u: number; export var w; export function set() { u = 1; w = 2; } }",
         "var N;\n(function (N) {\n function set() { N.u = 1; N.w = 2; }\n N.set = set;\n})(N || (N = {}));",
         [("before", "__s([Object.keys(N).sort(), N.u, N.w])"), ("after", "(function(){ N.set(); return __s([Object.keys(N).sort(), N.u, N.w]); })()")]),
        ("type-only", "namespace T { export interface I { a: number } export type X = number; }\nvar t = 1;", "var t = 1;",
         [("v", "__s(t)")]),
        ("ns-in-ns-merge", "namespace N { export namespace M { export const a = 1; } }\nnamespace N { export namespace M { export const b = a + 1; } }",
         "var N;\n(function (N) {\n let M;\n (function (M) {\n  M.a = 1;\n })(M = N.M || (N.M = {}));\n})(N || (N = {}));\n(function (N) {\n let M;\n (function (M) {\n  M.b = M.a + 1;\n })(M = N.M || (N.M = {}));\n})(N || (N = {}));",
         [("v", "__s([N.M.a, N.M.b, Object.keys(N.M).sort()])")]),
        ("this-in-ns-fn", "namespace N { export const a = 1; export function f(this: any) { return this === N; } }",
         "var N;\n(function (N) {\n N.a = 1;\n function f() { return this === N; }\n N.f = f;\n})(N || (N = {}));",
         [("v", "__s([N.f(), (0, N.f).call(5)])")]),
    ]
    extras += [
        ("sibling-namespaces-local-namespace", "namespace N1 { namespace U { export const v = 1; } export const a = U.v; }\nnamespace N2 { namespace U { export const v = 2; export const w = 3; } export const a = U.v + U.w; }",
         "var N1;\n(function (N1) {\n let U;\n (function (U) { U.v = 1; })(U || (U = {}));\n N1.a = U.v;\n})(N1 || (N1 = {}));\nvar N2;\n(function (N2) {\n let U;\n (function (U) { U.v = 2; U.w = 3; })(U || (U = {}));\n N2.a = U.v + U.w;\n})(N2 || (N2 = {}));",
         [("v", "__s([N1.a, N2.a, Object.keys(N1), Object.keys(N2)])")]),
        ("sibling-namespaces-local-enum", "namespace N1 { enum Mode { On = 1 } export const a = Mode.On; export const k = Object.keys(Mode).length; }\nnamespace N2 { enum Mode { Off = 4, Auto } export const a = Mode.Auto; export const k = Object.keys(Mode).length; }",
         "var N1;\n(function (N1) {\n let Mode;\n (function (Mode) { Mode[Mode[\"On\"] = 1] = \"On\"; })(Mode || (Mode = {}));\n N1.a = Mode.On;\n N1.k = Object.keys(Mode).length;\n})(N1 || (N1 = {}));\nvar N2;\n(function (N2) {\n let Mode;\n (function (Mode) { Mode[Mode[\"Off\"] = 4] = \"Off\"; Mode[Mode[\"Auto\"] = 5] = \"Auto\"; })(Mode || (Mode = {}));\n N2.a = Mode.Auto;\n N2.k = Object.keys(Mode).length;\n})(N2 || (N2 = {}));",
         [("v", "__s([N1.a, N1.k, N2.a, N2.k])")]),
        ("merged-blocks-each-with-local-namespace", "namespace N { namespace L { export const v = 1; } export const a = L.v; }\nnamespace N { namespace L { export const v = 10; } export const b = L.v; }",
         "var N;\n(function (N) {\n let L;\n (function (L) { L.v = 1; })(L || (L = {}));\n N.a = L.v;\n})(N || (N = {}));\n(function (N) {\n let L;\n (function (L) { L.v = 10; })(L || (L = {}));\n N.b = L.v;\n})(N || (N = {}));",
         [("v", "__s([N.a, N.b, Object.keys(N).sort()])")]),
        ("exported-nested-twice-in-siblings", "namespace P { export namespace Q { export const v = 1; } }\nnamespace R { export namespace Q { export const v = 2; } }",
         "var P;\n(function (P) {\n let Q;\n (function (Q) { Q.v = 1; })(Q = P.Q || (P.Q = {}));\n})(P || (P = {}));\nvar R;\n(function (R) {\n let Q;\n (function (Q) { Q.v = 2; })(Q = R.Q || (R.Q = {}));\n})(R || (R = {}));",
         [("v", "__s([P.Q.v, R.Q.v, P.Q === R.Q])")]),
    ]
    # a namespace merged with a function or a class: only the namespace's exports become N.x references; the
    # host's own (non-enumerable) properties - name, length, prototype, static members - must not capture
    # identifiers of the body that refer to outer variables of the same name
    hosts = {"fn": ("function H(a, b) { return 1; }", ["name", "length", "prototype"]),
             "class": ("class H { static helper() { return 'static-helper'; } static sval = 'sv'; m() { return 2; } }", ["name", "length", "prototype", "helper", "sval"]),
             "fn-then-ns-twice": ("function H(a) { return 1; }\nnamespace H { export const first = 1; }", ["name", "length", "first"])}
    for hk, (decl_ts, names) in hosts.items():
        decl_js = decl_ts.replace("namespace H { export const first = 1; }", "(function (H) {\n H.first = 1;\n})(H || (H = {}));")
        for nm in names:
            exported_earlier = (nm == "first")
            ref = "H.first" if exported_earlier else nm
            ts = "var %s_outer = 0; var %s%s = 'outer-%s';\n%s\nnamespace H { export const got = %s; export function read() { return %s; } export function write() { %s = 'written'; return %s; } }" % (
                nm, nm, "" if not exported_earlier else "_unused", nm, decl_ts, nm, nm, nm, nm)
            js = "var %s_outer = 0; var %s%s = 'outer-%s';\n%s\n(function (H) {\n H.got = %s;\n function read() { return %s; }\n H.read = read;\n function write() { %s = 'written'; return %s; }\n H.write = write;\n})(H || (H = {}));" % (
                nm, nm, "" if not exported_earlier else "_unused", nm, decl_js, ref, ref, ref, ref)
            outer = nm if not exported_earlier else nm + "_unused"
            extras.append(("merge-%s-outer-%s" % (hk, nm), ts, js,
                           [("v", "__s([H.got, H.read(), typeof %s])" % outer), ("m", "(function(){ var w = H.write(); return __s([w, %s, H.read(), Object.keys(H).sort()]); })()" % outer)]))
    for name, ts, js, obs in extras:
        o3 = [(o[0], o[1], o[2] if len(o) > 2 else o[1]) for o in obs]
        out.append(("nsx:" + name, program(ts, [(n, t) for n, t, _ in o3]), program(js, [(n, j) for n, _, j in o3]), [n for n, _, _ in o3], {"group": "nsx", "name": name}))
    return out


# ------------------------------------------------------------------ parameter properties
MODS = ["", "public", "private", "protected", "readonly", "public readonly", "private readonly"]
DEFS = ["none", "const", "prev", "call"]


def pp_items(tier):
    out = []
    pnames = ["a", "b", "c"]
    mods = MODS if tier != "quick" else ["", "public", "private", "readonly"]
    defs = DEFS if tier != "quick" else ["none", "const", "prev"]
    maxn = 3 if tier != "quick" else 2
    for n in range(1, maxn + 1):
        for ms in itertools.product(range(len(mods)), repeat=n):
            for ds in itertools.product(range(len(defs)), repeat=n):
                if n == 3 and tier != "quick" and sum(1 for d in ds if d) > 2:
                    continue
                if n == 3 and len({mods[m] == "" for m in ms}) == 1 and all(mods[m] == "" for m in ms):
                    continue
                for derived in (False, True):
                    if n == 3 and derived and ds != tuple([0] * n):
                        continue
                    tsps, jsps, assigns = [], [], []
                    ok = True
                    for i in range(n):
                        m, d = mods[ms[i]], defs[ds[i]]
                        if d == "prev" and i == 0:
                            ok = False
                            break
                        dv = {"none": "", "const": " = %d" % (10 + i), "prev": " = %s + 100" % pnames[i - 1] if i else "", "call": " = __t('d%d', %d)" % (i, 20 + i)}[d]
                        tsps.append("%s%s%s: number%s" % (m + " " if m else "", pnames[i], "", dv))
                        jsps.append("%s%s" % (pnames[i], dv))
                        if m:
                            assigns.append("this.%s = %s;" % (pnames[i], pnames[i]))
                    if not ok:
                        continue
                    # (in a base class the relative order of parameter defaults and field initialisers depends on the class-field emit mode, so only the derived variant logs the field initialiser)
                    body = "__t('body', 0); %s = -1; this.z = [%s, (this as any).fi];" % (pnames[0], ", ".join("(this as any).%s" % p for p in pnames[:n]))
                    body_js = "__t('body', 0); %s = -1; this.z = [%s, this.fi];" % (pnames[0], ", ".join("this.%s" % p for p in pnames[:n]))
                    pre = "var __tl: any[] = []; function __t(s: string, v: number) { __tl.push(s); return v; }\n"
                    pre_js = "var __tl = []; function __t(s, v) { __tl.push(s); return v; }\n"
                    if derived:
                        ts = pre + "class Base { bx: number; constructor(q: number) { __t('base', 0); this.bx = q; } }\nclass P extends Base { fi = __t('field', 7); z: any; constructor(%s) { super(__t('superarg', 5)); %s } }" % (", ".join(tsps), body)
                        js = pre_js + "class Base { constructor(q) { __t('base', 0); this.bx = q; } }\nclass P extends Base { constructor(%s) { super(__t('superarg', 5)); %s this.fi = __t('field', 7); %s } }" % (", ".join(jsps), " ".join(assigns), body_js)
                    else:
                        ts = pre + "class P { fi = 7; z: any; constructor(%s) { %s } }" % (", ".join(tsps), body)
                        js = pre_js + "class P { constructor(%s) { %s this.fi = 7; %s } }" % (", ".join(jsps), " ".join(assigns), body_js)
                    obs = []
                    for args in (["1", "2", "3"][:n], ["1"], [], ["undefined"] * n):
                        a = ", ".join(args)
                        obs.append(("new(%s)" % a, "(function(){ __tl.length = 0; var p: any = new (P as any)(%s); return __so(p) + __s(__tl); })()" % a, "(function(){ __tl.length = 0; var p = new P(%s); return __so(p) + __s(__tl); })()" % a))
                    obs.append(("length", "__s([P.length, P.name, Object.getOwnPropertyNames(P.prototype)])", "__s([P.length, P.name, Object.getOwnPropertyNames(P.prototype)])"))
                    obs.append(("desc", "(function(){ var p: any = new (P as any)(1, 2, 3); return __s(Object.keys(p).sort().map(function(k){ var d: any = Object.getOwnPropertyDescriptor(p, k); return k + (d.writable?'w':'-') + (d.enumerable?'e':'-') + (d.configurable?'c':'-'); })); })()",
                                "(function(){ var p = new P(1, 2, 3); return __s(Object.keys(p).sort().map(function(k){ var d = Object.getOwnPropertyDescriptor(p, k); return k + (d.writable?'w':'-') + (d.enumerable?'e':'-') + (d.configurable?'c':'-'); })); })()"))
                    obs.append(("write", "(function(){ var p: any = new (P as any)(1, 2, 3); p.%s = 77; return __s(p.%s); })()" % (pnames[n - 1], pnames[n - 1]), "(function(){ var p = new P(1, 2, 3); p.%s = 77; return __s(p.%s); })()" % (pnames[n - 1], pnames[n - 1])))
                    sid = ",".join("%s:%s" % (mods[ms[i]] or "-", defs[ds[i]]) for i in range(n)) + ("/derived" if derived else "")
                    out.append(("pp:" + sid, program(ts, [(x, t) for x, t, _ in obs]), program(js, [(x, j) for x, _, j in obs]), [x for x, _, _ in obs], {"group": "pp", "spec": sid}))
    extras = [
        ("rest-after-props", "class P { constructor(public a: number, ...rest: number[]) { (this as any).r = rest; } }", "class P { constructor(a, ...rest) { this.a = a; this.r = rest; } }",
         [("v", "__so(new P(1, 2, 3))"), ("l", "__s(P.length)")]),
        ("optional", "class P { constructor(public a?: number, private b?: string) {} }", "class P { constructor(a, b) { this.a = a; this.b = b; } }",
         [("v", "__so(new P())"), ("k", "__sl(Object.keys(new P()))"), ("h", "__s(new P().hasOwnProperty('a'))")]),
        ("shadow-method", "class P { constructor(public m: number) {} m2() { return this.m; } }", "class P { constructor(m) { this.m = m; } m2() { return this.m; } }", [("v", "__s(new P(4).m2())")]),
        ("prop-overrides-proto-method", "class P { constructor(public go: any) {} }\n(P.prototype as any).go = function(){ return 'proto'; };", "class P { constructor(go) { this.go = go; } }\nP.prototype.go = function(){ return 'proto'; };",
         [("v", "__s([new P(function(){ return 'own'; }).go(), new P(undefined).hasOwnProperty('go')])")]),
        ("setter-in-base", "var log: any[] = [];\nclass B { set a(v: number) { log.push('set' + v); } get a() { return 3; } }\nclass P extends B { constructor(x: number, public q: number) { super(); } }",
         "var log = [];\nclass B { set a(v) { log.push('set' + v); } get a() { return 3; } }\nclass P extends B { constructor(x, q) { super(); this.q = q; } }", [("v", "__s([new P(1, 2).q, new P(1, 2).a, log])")]),
        ("super-args-use-params", "class B { constructor(public s: number) {} }\nclass P extends B { constructor(public a: number, public b = a * 2) { super(a + b); } }",
         "class B { constructor(s) { this.s = s; } }\nclass P extends B { constructor(a, b = a * 2) { super(a + b); this.a = a; this.b = b; } }", [("v", "__so(new P(2))"), ("w", "__so(new P(2, 5))")]),
        ("destructure-sibling", "class P { y: number; constructor(public a: number, { k }: { k: number }) { this.y = k; } }", "class P { constructor(a, { k }) { this.a = a; this.y = k; } }", [("v", "__so(new P(1, { k: 2 }))")]),
        ("return-override", "class P { constructor(public a: number) { return { other: 1 } as any; } }", "class P { constructor(a) { this.a = a; return { other: 1 }; } }", [("v", "__so(new P(1))")]),
        ("throw-in-default", "class P { constructor(public a: number, public b: number = (function(): number { throw new RangeError('x'); })()) {} }", "class P { constructor(a, b = (function() { throw new RangeError('x'); })()) { this.a = a; this.b = b; } }",
         [("ok", "__so(new P(1, 2))"), ("thr", "__so(new P(1))")]),
        ("class-expression", "var K = class { constructor(public a: number, readonly b = 2) {} };", "var K = class { constructor(a, b = 2) { this.a = a; this.b = b; } };", [("v", "__so(new K(1))")]),
        ("static-and-instance", "class P { static n = 0; id: number; constructor(public a: number) { this.id = ++P.n; } }", "class P { static n = 0; constructor(a) { this.a = a; this.id = ++P.n; } }", [("v", "__s([__so(new P(5)), __so(new P(6)), P.n])")]),
        ("inherit-no-ctor", "class B { constructor(public a: number, protected b = 7) {} }\nclass D extends B { sum() { return this.a + this.b; } }", "class B { constructor(a, b = 7) { this.a = a; this.b = b; } }\nclass D extends B { sum() { return this.a + this.b; } }", [("v", "__s([new D(1).sum(), __so(new D(1, 2))])")]),
    ]
    for name, ts, js, obs in extras:
        o3 = [(o[0], o[1], o[2] if len(o) > 2 else o[1]) for o in obs]
        out.append(("ppx:" + name, program(ts, [(n, t) for n, t, _ in o3]), program(js, [(n, j) for n, _, j in o3]), [n for n, _, _ in o3], {"group": "ppx", "name": name}))
    return out


# ------------------------------------------------------------------ abstract classes
def abs_items(tier):
    out = []
    # members of the abstract class: which abstract / concrete members exist
    A_MEM = [
        ("am", "abstract m(): number;", ""),
        ("ap", "abstract p: number;", ""),
        ("ag", "abstract get g(): number;", ""),
        ("cm", "c() { return this.m() + 1; }", "c() { return this.m() + 1; }"),
        ("sm", "static s() { return 'S'; }", "static s() { return 'S'; }"),
        ("fi", "f = 3;", "f = 3;"),
        ("ct", "constructor(public a: number = 1) { }", "constructor(a = 1) { this.a = a; }"),
        ("pm", "protected abstract q(): string;", ""),
    ]
    for r in range(0, len(A_MEM) + 1):
        if tier == "quick" and r not in (0, 1, 2, len(A_MEM)):
            continue
        for sel in itertools.combinations(range(len(A_MEM)), r):
            ids = [A_MEM[i][0] for i in sel]
            ts_a = "abstract class A { %s }" % " ".join(A_MEM[i][1] for i in sel)
            js_mem = [A_MEM[i][2] for i in sel if A_MEM[i][2]]
            # field initialisers and parameter properties: tsc moves the initialiser into the constructor after the parameter properties
            if "fi" in ids and "ct" in ids:
                js_mem = [x for x in js_mem if x not in ("f = 3;", "constructor(a = 1) { this.a = a; }")] + ["constructor(a = 1) { this.a = a; this.f = 3; }"]
            js_a = "class A { %s }" % " ".join(js_mem)
            ts_b = "class B extends A { m() { return 2; } p = 5; get g() { return 6; } q() { return 'q'; } }"
            js_b = "class B extends A { p = 5; m() { return 2; } get g() { return 6; } q() { return 'q'; } }"
            obs = [("inst", "__so(new B())", "__so(new B())"),
                   ("calls", "__s([new B().m(), new B().p, new B().g, new B().q()%s%s])" % (", new B().c()" if "cm" in ids else "", ", (B as any).s(), A.s()" if "sm" in ids else ""),
                    "__s([new B().m(), new B().p, new B().g, new B().q()%s%s])" % (", new B().c()" if "cm" in ids else "", ", B.s(), A.s()" if "sm" in ids else "")),
                   ("proto", "__s([__pn(A.prototype), __pn(B.prototype), __pn(A), typeof A, A.name, A.length, new B() instanceof A, Object.getPrototypeOf(B) === A])", "__s([__pn(A.prototype), __pn(B.prototype), __pn(A), typeof A, A.name, A.length, new B() instanceof A, Object.getPrototypeOf(B) === A])"),
                   ("abstract-absent", "__s([typeof (A.prototype as any).m, 'p' in A.prototype, 'g' in A.prototype, typeof (A.prototype as any).q])", "__s([typeof A.prototype.m, 'p' in A.prototype, 'g' in A.prototype, typeof A.prototype.q])"),
                   # type-correct through `any`: the emit is a plain class, so construction succeeds
                   ("new-via-any", "(function(){ var C: any = A; var o = new C(); return __so(o) + __s(o instanceof A); })()", "(function(){ var C = A; var o = new C(); return __so(o) + __s(o instanceof A); })()"),
                   ("reflect-construct", "(function(){ var o: any = Reflect.construct(A as any, [], B); return __s([o instanceof B, o instanceof A]); })()", "(function(){ var o = Reflect.construct(A, [], B); return __s([o instanceof B, o instanceof A]); })()"),
                   ]
            out.append(("abs:" + "+".join(ids), program(ts_a + "\n" + ts_b, [(n, t) for n, t, _ in obs]), program(js_a + "\n" + js_b, [(n, j) for n, _, j in obs]), [n for n, _, _ in obs], {"group": "abs", "members": ids}))
    extras = [
        ("abstract-chain", "abstract class A { abstract m(): number; t() { return this.m() * 2; } }\nabstract class M extends A { abstract n(): number; u() { return this.t() + this.n(); } }\nclass C extends M { m() { return 1; } n() { return 10; } }",
         "class A { t() { return this.m() * 2; } }\nclass M extends A { u() { return this.t() + this.n(); } }\nclass C extends M { m() { return 1; } n() { return 10; } }", [("v", "__s([new C().u(), new C() instanceof A, __pn(M.prototype)])")]),
        ("abstract-static-factory", "abstract class A { static make(this: any) { return new this(); } abstract k(): number; }\nclass B extends A { k() { return 4; } }", "class A { static make() { return new this(); } }\nclass B extends A { k() { return 4; } }",
         [("v", "__s([(B as any).make().k(), (B as any).make() instanceof B])", "__s([B.make().k(), B.make() instanceof B])")]),
        ("abstract-ctor-calls-abstract", "abstract class A { v: number; constructor() { this.v = this.init(); } abstract init(): number; }\nclass B extends A { init() { return 8; } }", "class A { constructor() { this.v = this.init(); } }\nclass B extends A { init() { return 8; } }", [("v", "__so(new B())")]),
        ("abstract-expr-class", "abstract class A { abstract m(): number; }\nvar K = class extends A { m() { return 1; } };", "class A { }\nvar K = class extends A { m() { return 1; } };", [("v", "__s([new K().m(), new K() instanceof A])")]),
        ("abstract-accessors", "abstract class A { abstract get x(): number; abstract set x(v: number); y() { return this.x; } }\nclass B extends A { _x = 1; get x() { return this._x; } set x(v) { this._x = v; } }", "class A { y() { return this.x; } }\nclass B extends A { _x = 1; get x() { return this._x; } set x(v) { this._x = v; } }",
         [("v", "(function(){ var b = new B(); b.x = 5; return __s([b.y(), __pn(A.prototype)]); })()")]),
    ]
    for name, ts, js, obs in extras:
        o3 = [(o[0], o[1], o[2] if len(o) > 2 else o[1]) for o in obs]
        out.append(("absx:" + name, program(ts, [(n, t) for n, t, _ in o3]), program(js, [(n, j) for n, _, j in o3]), [n for n, _, _ in o3], {"group": "absx", "name": name}))
    return out


GROUPS = {"enum": enum_items, "ns": ns_items, "pp": pp_items, "abs": abs_items}


def items(tier):
    out = []
    for g, fn in GROUPS.items():
        out.extend(fn(tier))
    ids = set()
    for it in out:
        assert it[0] not in ids, it[0]
        ids.add(it[0])
    return out
