"""C18 — module specifiers resolve to canonical paths. Exhaustive enumeration of all
(specifier, importer) pairs over the 7-symbol segment alphabet up to a length bound, each
compared with an independent join-and-normalise reference (harness/src/c18.rs)."""
import json, sys
from . import core

PID = "C18"


def run(tier, seed):
    chk = core.Check(PID, tier, seed, "exploration")
    runs = []
    if tier == "quick":
        runs.append(("spec<=4 x importer<=3", lambda k, n: ["c18", 4, 3, k, n]))
    else:
        runs.append(("spec<=5 x importer<=4", lambda k, n: ["c18", 5, 4, k, n]))
        runs.append(("total<=7 segments", lambda k, n: ["c18", 7, 7, k, n, "total"]))
    tot = {"pairs": 0, "compared_full": 0, "bare": 0, "skipped_dot_specs": 0, "undefined_base": 0}
    distinct = 0
    fam = {}
    samples = []
    for name, fn in runs:
        res = core.tvh_shards(fn)
        f = {k: sum(r[k] for r in res) for k in tot}
        fam[name] = f
        for k in tot:
            tot[k] += f[k]
        distinct = max(distinct, max(r["distinct_results"] for r in res))
        samples += [{"specifier": s, "importer": "/a/b/main.ts"} for s in res[0]["sample_specs"][:2]]
        for r in res:
            for v in r["violations"]:
                key = "%s|%s|%s" % (v["kind"], v["spec"], v["importer"])
                chk.fail(key, v["got"], "resolve(%r, %r) = %r, expected %r (%s)" % (v["spec"], v["importer"], v["got"], v["want"], v["kind"]),
                         {"spec": v["spec"], "importer": v["importer"], "expected": v["want"], "kind": v["kind"]})
            if r["nviol"] > len(r["violations"]):
                chk.notes.append("violation list truncated in a shard: %d total" % r["nviol"])
    chk.coverage = {"evaluations": tot["pairs"], "distinct_nontrivial": distinct, "families": fam, "samples": samples, **tot,
                    "rule": "all '/'-joined sequences over {'', '.', '..', 'a', 'b', '..a', 'a.ts'} with/without leading and trailing slash, as specifier and as importer (plus importer None), up to the stated segment bounds; distinct_nontrivial = number of distinct canonical results among the fully compared pairs; full equality with the reference is demanded for absolute specifiers and for relative specifiers against an absolute importer; bare specifiers must pass through; the specifiers '.' and '..' and relative specifiers without an absolute importer are only checked for no-panic"}
    chk.assumptions = ["directory of an importer = text before its last '/'", "relative = starts with './' or '../' (the crate's documented classification); '.' and '..' alone are not classified by the statement and are skipped"]
    return chk.finish(exhaustive=True)


def replay(path):
    rp = json.load(open(path))
    src = json.dumps({"spec": rp["spec"], "importer": rp["importer"]})
    d = core.tvh_json(["c18one", rp["spec"], rp["importer"] if rp["importer"] is not None else "\0none"])
    print("resolve(%r, %r) = %r ; expected %r" % (rp["spec"], rp["importer"], d["got"], rp["expected"]))
    if d["got"] != rp["expected"]:
        print("VIOLATION property=C18 replay=%s" % path)
        return 1
    return 0
