"""C11 — an interpreter stays usable and clean after failed or abandoned runs.
Crash point = (program A, step index k). For every A of the family and EVERY k in 0..steps(A) (plus A's
natural end, and histories with an earlier abandoned run in front), the host abandons A after k steps and
runs each observer program on the same interpreter; the observer must behave exactly as on a fresh
interpreter, call_depth() must be 0 afterwards and the quiescent-state summary (hook) must equal the
fresh interpreter's."""
import json, sys
from . import core

PID = "C11"

DEP = ["/a/dep.ts", "export const d = 'dep'; export function df(){ return d + '!'; }"]
BDEP = ["/b/dep.ts", "export const d = 'bdep';"]

# modules with a global side effect: they must never run on behalf of a later, unrelated program
SIDE = ["/a/side.ts", "(globalThis as any).leakedGlobal = ((globalThis as any).leakedGlobal || 0) + 1; export const s = 1;"]
MID = ["/a/mid.ts", "import { deepv } from './deep.ts'; (globalThis as any).leakedGlobal = 7; export const m = deepv;"]
DEEP_THROWS = ["/a/deep.ts", "export const deepv = 1; throw new Error('deep module fails');"]
SIDE_IMPORTS = ["/a/side2.ts", "import { zz } from './never-supplied.ts'; (globalThis as any).leakedGlobal = 9; export const s2 = zz;"]

A_PROGRAMS = {
    "module-supplied-then-abandoned": {"src": "import { s } from './side.ts'; import { nothing } from './missing.ts'; let secret = s; secret", "path": "/a/main.ts", "modules": [SIDE]},
    "module-dep-of-dep-throws": {"src": "import { m } from './mid.ts'; let secret = m; secret", "path": "/a/main.ts", "modules": [MID, DEEP_THROWS]},
    "module-supplied-with-own-imports": {"src": "import { s2 } from './side2.ts'; import { nothing } from './missing.ts'; let secret = s2; secret", "path": "/a/main.ts", "modules": [SIDE_IMPORTS]},
    "callee-locals": "function g(){ let inner = 7; let loc1 = {x:1}; for (let k=0;k<20;k++){ inner+=k; } return inner; } g()",
    "deep-chain-throw": "function f(n){ let loc1 = n; if (n==0) { let secret = 42; throw new Error('deep'); } return f(n-1)+loc1; } f(6)",
    "block-let": "{ let secret = 1; { let inner = 2; { let blockv = 3; secret = inner + blockv; } } secret }",
    "try-finally-nested": "function f(){ let loc1 = []; try { try { loc1.push(1); throw new TypeError('t'); } finally { loc1.push(2); } } finally { let inner = 9; loc1.push(inner); } } f()",
    "try-catch-rethrow": "function f(){ try { null.x; } catch (e) { let secret = e; throw secret; } } f()",
    "finally-return-pending": "function f(){ let loc1 = 0; for (let i=0;i<3;i++){ try { if (i==1) return 'r'; loc1++; } finally { loc1+=10; } } } f()",
    "generator-mid": "function* g(){ let inner = 1; try { yield inner; let secret = 2; yield secret; } finally { inner = 0; } } let n=0; for (const v of g()) { let blockv = v; n+=blockv; if (v==1) continue; }",
    "generator-abandoned": "function* g(){ let inner = 1; while (true) { let secret = inner++; yield secret; } } const it=g(); it.next(); it.next(); it.next().value",
    "async-await-order": "import { order } from 'tsrun:host'; async function f(){ let inner = 5; const v = await order({k:inner}); let secret = v; return secret; } const r = await f(); r",
    "async-chain": "async function a(){ let loc1 = 1; await null; return loc1; } async function b(){ let inner = await a(); let secret = inner + 1; await null; return secret; } b().then(function(v){ let blockv = v; return blockv; }); 1",
    "class-ctor-throws": "class C { f = 1; constructor(x){ let secret = x; this.v = secret; if (x > 1) throw new RangeError('c'); } } new C(1); new C(2)",
    "class-static-block": "class C { static s = 1; static { let inner = C.s + 1; C.t = inner; } m(){ let loc1 = this; return loc1; } } new C().m(); C.t",
    "callback-throws": "[1,2,3].map(function(x){ let inner = x * 2; if (x == 2) { let secret = inner; throw new Error('cb' + secret); } return inner; })",
    "callback-nested": "[1,2].forEach(function(x){ let loc1 = x; [3,4].forEach(function(y){ let inner = loc1 * y; let blockv = inner; }); }); 'done'",
    "sort-comparator": "[3,1,2].sort(function(a,b){ let inner = a - b; { let secret = inner; return secret; } })",
    "getter-throws": "const o = { get g(){ let secret = 3; throw new Error('g' + secret); } }; function f(){ let loc1 = o; return loc1.g; } f()",
    "tostring-hook": "const o = { toString(){ let inner = 'x'; return inner; } }; function f(){ let loc1 = '' + o + `${o}`; return loc1; } f()",
    "switch-labels": "outer: for (let i=0;i<3;i++){ let loc1 = i; switch (i) { case 0: { let secret = 0; continue outer; } case 1: { let inner = 1; break; } default: { let blockv = 2; break outer; } } }",
    "closures": "function mk(){ let secret = 0; return function(){ let inner = ++secret; return inner; }; } const c = mk(); c(); c(); c()",
    "recursion-deep": "function r(n){ let loc1 = n; return n == 0 ? 0 : 1 + r(n - 1); } r(60)",
    "destructuring-defaults": "function f({a = (function(){ let inner = 1; return inner; })(), b: [c = 2] = []} = {}){ let secret = a + c; return secret; } f(); f({b:[5]})",
    "proxy-trap-throws": "const p = new Proxy({}, { get(t, k){ let secret = k; if (k == 'boom') throw new Error('p'); return secret; } }); function f(){ let loc1 = p.a; return p.boom; } f()",
    "json-reviver": "JSON.parse('{\"a\":[1,2,{\"b\":3}]}', function(k, v){ let inner = v; if (k == 'b') { let secret = inner; throw new Error('rv' + secret); } return inner; })",
    "module-throws": {"src": "let secret = 42; export const e = 1; function f(){ let inner = secret; throw new Error('mod' + inner); } f();", "path": "/a/main.ts"},
    "module-import-throws": {"src": "import { d, df } from './dep.ts'; let secret = df(); export const e = d; { let blockv = secret; throw new TypeError(blockv); }", "path": "/a/main.ts", "modules": [DEP]},
    "module-completes": {"src": "import { d } from './dep.ts'; let secret = d; export let exported = secret + '1'; { let inner = exported; inner }", "path": "/a/main.ts", "modules": [DEP]},
    "module-missing-import": {"src": "import { nothing } from './missing.ts'; let secret = nothing; secret", "path": "/a/main.ts"},
    "syntax-error": "function f( { let secret = 1;",
    "reference-error-tdz": "function f(){ { inner; let inner = 1; } } f()",
    "stack-heavy-args": "function f(a,b,c,d,e){ let loc1 = [a,b,c,d,e]; return loc1.length ? g(loc1) : 0; } function g(x){ let inner = x.map(function(v){ let secret = v + 1; return secret; }); throw inner; } f(1,2,3,4,5)",
    "promise-reject-unhandled": "new Promise(function(res, rej){ let secret = 1; rej(new Error('p' + secret)); }); Promise.resolve(1).then(function(v){ let inner = v; throw new Error('t' + inner); }); 'sync-done'",
    "for-of-break-iterator": "const it = { [Symbol.iterator](){ let inner = 0; return { next(){ let secret = inner++; return { value: secret, done: secret > 5 }; }, return(){ let blockv = 'closed'; return { done: true }; } }; } }; for (const v of it) { let loc1 = v; if (loc1 == 2) break; }",
    "tagged-template-throws": "function tag(s, ...v){ let secret = v[0]; if (secret > 1) throw new Error('tag'); return s.raw.join(secret); } function f(){ let loc1 = tag`a${1}b`; return tag`a${2}b`; } f()",
    "eval-like-nested-fn-expr": "(function(){ let secret = 1; return (function(){ let inner = secret + 1; return (() => { let blockv = inner + 1; throw new Error('iife' + blockv); })(); })(); })()",
}

# the same kinds of run started through eval() (which drives itself to the first suspension and hands over to step())
A_PROGRAMS.update({
    "eval-script-order": {"src": "import { order } from 'tsrun:host'; async function run(){ let secret = 1; const got = await order('q'); let inner = got; return inner + secret; } await run()", "entry": "eval"},
    "eval-script-plain": {"src": "function g(){ let secret = 5; let inner = secret * 2; return inner; } g()", "entry": "eval"},
    "eval-module-order": {"src": "import { order } from 'tsrun:host'; export const e2 = 1; let secret = await order('q'); export const got = secret; got", "path": "/a/evalmain.ts", "entry": "eval"},
    "eval-module-throws": {"src": "export const early = 1; let secret = 2; throw new Error('em' + secret);", "path": "/a/evalthrows.ts", "entry": "eval"},
    "module-exports-then-throws": {"src": "export const stale1 = 1; export function stale2(){ return 2; } let secret = 3; throw new Error('late');", "path": "/a/main.ts"},
})

NAMES = "typeof secret+'|'+typeof inner+'|'+typeof loc1+'|'+typeof blockv"
OBSERVERS = [
    {"name": "typeof-names", "src": NAMES + "+'|'+(function(){ return typeof this; })()+'|'+typeof e+'|'+typeof exported+'|'+typeof d"},
    {"name": "redeclare-names", "src": "{ let secret = 1; let inner = 2; const blockv = 4; function f(){ let loc1 = 3; return secret + inner + loc1 + blockv; } f() }"},
    {"name": "recursion", "src": "function rr(n){ return n == 0 ? 0 : 1 + rr(n - 1); } rr(150)"},
    {"name": "finally-completion", "src": "var oo = []; function ff(){ try { return 1; } finally { oo.push('f'); } } function gg(){ for (var i = 0; i < 2; i++) { try { continue; } finally { oo.push('c' + i); } } return 'g'; } [ff(), gg(), oo.join()].join('|')"},
    {"name": "order-roundtrip", "src": "import { order } from 'tsrun:host'; const v = await order('b'); typeof v + ':' + v"},
    {"name": "module-import", "src": "import { d } from './dep.ts'; export const mine = d + '?' + typeof (globalThis as any).leakedGlobal; mine", "path": "/b/main.ts", "modules": [BDEP]},
    {"name": "import-earlier-main", "src": "import * as prev from '/a/main.ts'; export const seen = Object.keys(prev).sort().join(); seen", "path": "/c/obs.ts", "skip_if_a_completed": True},
    {"name": "module-with-own-exports", "src": "export const mine1 = 1; export default function dd(){ return 2; } mine1", "path": "/c/obs2.ts"},
    {"name": "generator-async", "src": "async function af(){ await null; return 5; } af(); function* gen(){ try { yield 1; yield 2; } finally { } } var acc = []; for (const x of gen()) { acc.push(x); } acc.join() + '|' + [...gen()].length"},
    {"name": "exception-handlers", "src": "var log = []; try { try { null.x; } finally { log.push('fin'); } } catch (err) { log.push(err instanceof TypeError); } try { undefinedFunctionName(); } catch (err2) { log.push(err2.name); } log.join()"},
]


def mk(a):
    return a if isinstance(a, dict) else {"src": a}


def run(tier, seed):
    chk = core.Check(PID, tier, seed, "fault_enumeration")
    cases = []
    names = list(A_PROGRAMS)
    for n in names:
        cases.append({"id": "single|" + n, "prefix": [], "a": mk(A_PROGRAMS[n]), "observers": OBSERVERS, "stride": 1})
    # histories of two runs: an earlier run abandoned at a few points, then A with every crash point
    firsts = names[:8] if tier == "quick" else names
    seconds = ["callee-locals", "module-throws", "generator-mid", "eval-script-order", "eval-module-order"] if tier == "quick" else names[::3] + ["eval-script-order", "eval-script-plain", "eval-module-order", "eval-module-throws"]
    firsts = firsts + ["module-exports-then-throws", "eval-module-throws"] if tier == "quick" else firsts
    seconds = list(dict.fromkeys(seconds))
    firsts = list(dict.fromkeys(firsts))
    for f in firsts:
        for stop in ([7, None] if tier == "quick" else [3, 7, 15, 40, None]):
            for s in seconds:
                p = dict(mk(A_PROGRAMS[f]))
                if stop is not None:
                    p["stop"] = stop
                # (after a prefix run that was driven to its end the earlier main module may legitimately be loaded)
                obs = [o for o in OBSERVERS[:4] + OBSERVERS[5:] if not (o["name"] == "import-earlier-main" and stop is None)]
                cases.append({"id": "history|%s@%s|%s" % (f, stop, s), "prefix": [p], "a": mk(A_PROGRAMS[s]), "observers": obs, "stride": 3 if tier == "quick" else 1})
    res = core.run_batch(cases, sub_args=("reuse",), hang_s=300, as_gb=2)
    runs = 0
    points = 0
    fam = {}
    distinct = 0
    for c in cases:
        o = res[c["id"]]
        kind = c["id"].split("|")[0]
        f = fam.setdefault(kind, {"histories": 0, "crash_points": 0, "observer_runs": 0, "histories_with_leaks": 0})
        f["histories"] += 1
        aname = c["id"].split("|")[-1]
        if o.get("status") != "ok":
            f["histories_with_leaks"] += 1
            chk.fail("proc|" + c["id"], str(o.get("status")), "%s: worker %s" % (c["id"], o.get("status")), {"case": c}, cluster="process-level failure: " + aname)
            continue
        runs += o["runs"]
        points += o["crash_points"]
        f["crash_points"] += o["crash_points"]
        f["observer_runs"] += o["runs"]
        distinct += o["a_outcomes"]
        if o["nbad"]:
            f["histories_with_leaks"] += 1
            b0 = o["bad"][0]
            kinds = sorted(set((b["observer"] + ":" + b["what"].split(" ")[0]) for b in o["bad"]))
            chk.fail("reuse|" + json.dumps(c, sort_keys=True), ",".join(kinds)[:200],
                     "%s: after abandoning the run at step %s (%s) observer '%s': %s  [%d of %d (crash point, observer) pairs differ]" % (c["id"], b0["k"], b0.get("a_state"), b0["observer"], b0["what"][:300], o["nbad"], o["runs"]),
                     {"case": c, "k": b0["k"], "observer": b0["observer"]}, cluster="state leaks after: " + aname + (" (with an earlier abandoned run)" if kind == "history" else ""))
    chk.coverage = {"evaluations": runs, "distinct_nontrivial": distinct, "crash_points": points, "families": fam, "a_programs": len(names), "observers": len(OBSERVERS),
                    "samples": [{"a": A_PROGRAMS["callee-locals"], "crash_points": "every step 0..N and the natural end", "observer": OBSERVERS[0]["src"]}],
                    "rule": "for each of %d programs A (faults and plain code nested in blocks, calls, try/finally, generators, async functions, classes, native callbacks, proxies, module bodies with imports) every crash point k = 0..steps(A) plus A's natural end, and two-run histories (an earlier run abandoned at several points, then A at every crash point); after each, %d observer programs run on the same interpreter and are compared with a fresh interpreter (result, call_depth()==0, quiescent-state summary); evaluations = observer runs; distinct_nontrivial = distinct A-states (abandoned/ended) reached" % (len(names), len(OBSERVERS))}
    chk.assumptions = ["A programs keep their declarations inside functions/blocks/modules, so nothing they do to global state is deliberate", "orders issued by observers are answered immediately with a fixed value"]
    return chk.finish(exhaustive=True)


def replay(path):
    rp = json.load(open(path))
    c = rp["case"]
    o = core.run_batch([c], sub_args=("reuse",), hang_s=300, as_gb=2)[c["id"]]
    print(json.dumps({k: o.get(k) for k in ("a_steps", "runs", "nbad", "bad")})[:2000])
    if o.get("status") != "ok" or o.get("nbad"):
        print("VIOLATION property=C11 replay=%s" % path)
        return 1
    return 0
