"""C04 — TypeScript's run-time constructs behave as their standard JavaScript emit.
Exhaustive enumeration of declaration shapes (enums, namespaces, parameter properties, abstract
classes; vlib/gen04.py holds the emit rules = reference model).  For every shape the TypeScript
program runs on tsrun, its emit runs on tsrun and on the reference engine (golden table), and
every observation of the TypeScript program must equal the reference engine's observation of the
emit.  Key *sets* are compared (sorted), enumeration order is C01's business."""
import json, os, sys
from . import core, prog, gen04

PID = "C04"
SEP = gen04.SEP


def cases_of(items, which):
    return [prog.Case(it[0], it[1] if which == "ts" else it[2]) for it in items]


def gold_values(line):
    """golden line (node core obs, maybe two modes) -> list of alternatives, each a list of observer strings or None"""
    alts = []
    for g in line.replace("\\n", "\n").split(prog.ALT):
        if g.startswith("ok|s:") and g.endswith("||[]"):
            alts.append(g[len("ok|s:"):-len("||[]")].split(SEP))
        else:
            alts.append(None)
    return alts


def cluster_of(meta, oname, got, want):
    g = meta["group"]
    base = oname.split(":")[0].split("(")[0]
    if g == "enum":
        ks = meta["kinds"]
        feats = []
        if meta["const"]:
            feats.append("const enum")
        if meta["split"] is not None:
            feats.append("repeated declaration")
        if "len" in ks:
            feats.append("computed member")
        if "dup" in ks or ("ref" in ks):
            feats.append("duplicate value")
        if "cexp" in ks or "or" in ks:
            feats.append("constant expression")
        if meta["ctx"] != "top":
            feats.append("in " + meta["ctx"])
        if base.startswith("m-"):
            return "enum object is not an ordinary mutable object (%s)" % base
        if got.startswith("E:") or got.startswith("T:"):
            return "enum: observer %s throws %s" % (base, got[:14])
        return "enum %s: %s" % ("/".join(feats) or "plain", base)
    if g in ("enumx", "nsx", "ppx", "absx"):
        return "%s %s" % (g, meta["name"])
    if g == "ns":
        return "namespace: %s" % base
    if g == "pp":
        return "parameter properties: %s" % base
    if g == "abs":
        return "abstract class: %s" % base
    return g


def run(tier, seed):
    chk = core.Check(PID, tier, seed, "exploration")
    items = gen04.items(tier)
    gname = "C04." + tier
    jscases = cases_of(items, "js")
    gold = prog.read_golden(gname, gname, jscases)
    ts_res = prog.tsrun_run(cases_of(items, "ts"))
    js_res = prog.tsrun_run(jscases)
    groups = {}
    nobs = 0
    core_dev = 0
    agree = 0
    distinct = set()
    core_by = {}
    for it, gl in zip(items, gold):
        iid, ts_src, js_src, onames, meta = it
        grp = groups.setdefault(meta["group"], {"programs": 0, "observations": 0, "failing": 0, "core_deviation_skipped": 0})
        grp["programs"] += 1
        alts = [a for a in gold_values(gl)]
        if any(a is None or len(a) != len(onames) for a in alts):
            raise core.MachineryError("reference engine did not complete the emit of %s: %s" % (iid, gl[:200]))
        t = ts_res[iid]
        j = js_res[iid]
        jvals = j["value"][2:].split(SEP) if j["status"] == "ok" and j["value"].startswith("s:") else None
        if jvals is not None and len(jvals) != len(onames):
            jvals = None
        if t["status"] != "ok" or not t["value"].startswith("s:") or len(t["value"][2:].split(SEP)) != len(onames):
            got = core.obs_core(t)
            nobs += len(onames)
            grp["observations"] += len(onames)
            if jvals is None and core.obs_core(j) == got:
                core_dev += len(onames)
                grp["core_deviation_skipped"] += len(onames)
                continue
            grp["failing"] += 1
            chk.fail(iid + "|program", got[:200], "%s: the TypeScript program fails as a whole (%s %s) while its emit completes on the reference engine" % (iid, got[:60], t.get("msg", "")[:80]),
                     {"id": iid, "tier": tier, "observer": None, "ts": ts_src[len(prog.PRINTER) + len(gen04.HELP):][:3000]},
                     cluster="%s: program rejected/fails: %s" % (meta["group"] if meta["group"][-1] != "x" else meta["group"] + " " + meta["name"], (t.get("err", "") + " " + t.get("msg", "").split(" at ")[0])[:70]))
            continue
        tvals = t["value"][2:].split(SEP)
        for k, on in enumerate(onames):
            nobs += 1
            grp["observations"] += 1
            wants = [a[k] for a in alts]
            if tvals[k] in wants:
                agree += 1
                distinct.add(tvals[k])
                continue
            if jvals is not None and jvals[k] == tvals[k]:
                # tsrun evaluates the plain-JavaScript emit to the same wrong answer: a core (C01) deviation, not a C04 one
                core_dev += 1
                grp["core_deviation_skipped"] += 1
                cd = core_by.setdefault(meta["group"] + "/" + on.split(":")[0].split("(")[0], [0, iid, tvals[k][:80], wants[0][:80]])
                cd[0] += 1
                continue
            grp["failing"] += 1
            chk.fail("%s|%s" % (iid, on), tvals[k][:200], "%s observer %s: TypeScript gives %s, its emit gives %s" % (iid, on, tvals[k][:80], wants[0][:80]),
                     {"id": iid, "tier": tier, "observer": on, "want": wants, "ts": ts_src[len(prog.PRINTER) + len(gen04.HELP):][:3000]},
                     cluster=cluster_of(meta, on, tvals[k], wants[0]))
    chk.coverage = {"evaluations": nobs, "programs": len(items), "distinct_nontrivial": len(distinct), "agreeing_observations": agree, "core_deviation_skipped": core_dev, "core_deviation_by_observer": core_by, "groups": groups,
                    "samples": [{"id": items[k][0], "ts": items[k][1][len(prog.PRINTER) + len(gen04.HELP):][:600], "js": items[k][2][len(prog.PRINTER) + len(gen04.HELP):][:600]} for k in (5, len(items) // 2)],
                    "rule": "every declaration shape of the generator (enums: all member-kind tuples of length<=3 over %d kinds plus a structured length-4 set, each as one block, split into two merged blocks at every point, as const enum, and at top level / in a function / in a block; namespaces: all item lists of length<=%d over 9 (kind, exported) choices with two nested-body menus, as one block and split into merged blocks at every point; parameter properties: all modifier x default tuples for <=%d parameters, plain and derived; abstract classes: subsets of 8 member kinds) x every observer; oracle = the reference engine's result for the tsc emit (golden table), key sets sorted" % (len(gen04.KINDS_Q if tier == "quick" else gen04.KINDS_T), 2 if tier == "quick" else 3, 2 if tier == "quick" else 3)}
    chk.assumptions = ["the emit rules coded in vlib/gen04.py are those of tsc (target ES2022, no const-enum preservation); only type-correct programs are generated",
                       "an observation on which tsrun's evaluation of the plain-JavaScript emit is equally wrong is a core-language deviation (C01) and is not reported here",
                       "golden tables were produced by node v20 from the emitted JavaScript"]
    return chk.finish(exhaustive=True)


def replay(path):
    rp = json.load(open(path))
    items = {it[0]: it for it in gen04.items(rp.get("tier", "thorough"))}
    it = items[rp["id"]]
    t = prog.tsrun_run([prog.Case("r", it[1])])["r"]
    print("TypeScript program:\n" + it[1][len(prog.PRINTER) + len(gen04.HELP):])
    if rp["observer"] is None:
        print("status=%s err=%s msg=%s" % (t["status"], t.get("err"), t.get("msg", "")[:200]))
        bad = t["status"] != "ok"
    else:
        k = it[3].index(rp["observer"])
        vals = t["value"][2:].split(SEP) if t["status"] == "ok" else []
        got = vals[k] if k < len(vals) else core.obs_core(t)
        print("observer %s: got %s, emit gives %s" % (rp["observer"], got, rp["want"]))
        bad = got not in rp["want"]
    if bad:
        print("VIOLATION property=C04 replay=%s" % path)
        return 1
    return 0
