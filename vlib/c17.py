"""C17 — the C API is memory-safe and total for every call sequence.
Explicit-state exploration (harness/src/c17.rs): breadth-first over call histories of the exported
tsrun_* functions (prototypes transcribed from tsrun.h), every history replayed on fresh real objects,
deduplicated by the canonical state of a reference model (contexts, handles with kind / owner /
freed flag / content model, execution state, in-flight order responses).  From 8 scripted initial
states; every call optionally preceded by a forced collection; at every state additionally the
NULL sweep (every function with NULL in each pointer position).  Oracles: results agree with the
model, every returned string is NUL-terminated valid UTF-8 within its lifetime, no stale-handle
event (hook), scripts see host values intact, no crash; the same exploration under AddressSanitizer."""
import json, os, subprocess, sys, time
from concurrent.futures import ThreadPoolExecutor
from . import core

PID = "C17"
INITS = {0: "fresh context", 1: "fixtures (host objects, script functions, natives, internal module)", 2: "suspended on Promise.all of two orders", 3: "completed with an object value", 4: "waiting for imports",
         5: "suspended on an order created by a native callback", 6: "context freed, handles survive", 7: "module with exports completed"}


def asan_exe():
    from . import c13
    return c13.build_asan()


def explore(exe, depth, inits, gc, nshards, label, timeout=7200, cap=None):
    os.makedirs(os.path.join(core.ROOT, "cache"), exist_ok=True)

    def one(k):
        cur = os.path.join(core.ROOT, "cache", "c17_%s_%d.cur" % (label, k))
        args = [exe, "c17", "explore", str(depth), str(k), str(nshards), ",".join(map(str, inits)), str(gc), cur] + ([str(cap)] if cap else [])
        env = dict(os.environ)
        env["ASAN_OPTIONS"] = "detect_leaks=0:abort_on_error=1:halt_on_error=1"
        try:
            r = subprocess.run(args, stdout=subprocess.PIPE, stderr=subprocess.PIPE, text=True, timeout=timeout, env=env)
        except subprocess.TimeoutExpired:
            return {"death": "timeout", "cur": open(cur).read().split("\n")[0] if os.path.exists(cur) else "", "stderr": ""}
        lines = [l for l in r.stdout.splitlines() if l.strip()]
        if r.returncode != 0 or not lines:
            return {"death": "exit %d" % r.returncode, "cur": open(cur).read().split("\n")[0].strip() if os.path.exists(cur) else "", "stderr": r.stderr[-1500:]}
        return json.loads(lines[-1])
    with ThreadPoolExecutor(max_workers=core.NCPU) as ex:
        return list(ex.map(one, range(nshards)))


def run(tier, seed):
    chk = core.Check(PID, tier, seed, "model_checking")
    exe = core.build("chk")
    plan = []
    if tier == "quick":
        plan.append(("chk", exe, 2, list(INITS), 0, None))
        plan.append(("chk", exe, 2, list(INITS), 1, None))
    else:
        plan.append(("chk", exe, 3, list(INITS), 0, None))
        plan.append(("chk", exe, 3, list(INITS), 1, None))
        plan.append(("chk-depth4", exe, 4, [1, 2, 5], 1, 400_000))
    # a collection at the k-th allocation inside every call (k = 2..8; k = 1 is the pass above)
    for k in range(2, 9):
        plan.append(("chk-gc-at-alloc-%d" % k, exe, 1 if tier == "quick" else 2, list(INITS), 10 + k, None))
    aexe = asan_exe()
    plan.append(("asan", aexe, 1 if tier == "quick" else 2, list(INITS), 1, None))
    tot = {"states": 0, "transitions": 0, "runs": 0}
    passes = []
    for label, e, depth, inits, gc, cap in plan:
        t0 = time.time()
        outs = explore(e, depth, inits, gc, 16, "%s_%d_%d" % (label, depth, gc), cap=cap)
        st = sum(o.get("states", 0) for o in outs)
        tr = sum(o.get("transitions", 0) for o in outs)
        rn = sum(o.get("runs", 0) for o in outs)
        tot["states"] += st
        tot["transitions"] += tr
        tot["runs"] += rn
        capped = any(o.get("capped") for o in outs)
        passes.append({"build": label, "depth": depth, "initial_states": inits, "forced_collection_before_every_call": gc == 1, "collection_at_allocation_k_inside_every_call": (gc - 10) if gc >= 10 else None, "model_states": st, "transitions": tr, "histories_replayed": rn, "capped_at_runs_per_shard": cap if capped else None, "wall_s": round(time.time() - t0, 1)})
        for o in outs:
            if "death" in o:
                init, gcs, hist = (o["cur"].split("|") + ["", "", ""])[:3]
                chk.fail("death|%s|%s|%s" % (label, init, hist), "death", "%s build: the process died (%s) while replaying history [%s] from initial state %s; %s" % (label, o["death"], hist, init, o["stderr"].strip().split("\n")[-1][:200] if o["stderr"] else ""),
                         {"init": int(init or 1), "gc": int(gcs or 0), "history": hist, "build": label}, cluster="process death: " + (o["stderr"].strip().split("\n")[-1][:80] if o["stderr"] else o["death"]))
                continue
            for v in o.get("violations", []):
                chk.fail("%s|%d|%s" % (v["init"], v["gc"], v["history"]), v["problems"][0][:160], "from initial state %d (%s)%s, history [%s]: %s" % (v["init"], INITS.get(v["init"], "?"), ", collection forced before every call" if v["gc"] else "", v["history"], "; ".join(v["problems"])[:300]),
                         {"init": v["init"], "gc": v["gc"], "history": v["history"], "build": label}, cluster=v["problems"][0].split(":")[0][:70])
    chk.coverage = {"states": tot["states"], "transitions": tot["transitions"], "evaluations": tot["runs"], "distinct_nontrivial": tot["states"], "passes": passes, "initial_states": INITS,
                    "alphabet": "value constructors of every kind (incl. strings with interior NUL, invalid JSON, native functions), dup/free (newest/oldest), inspection, get/set/has/delete/keys, array ops, call/call_method (script and native callees; callbacks that create values, call back into scripts, raise errors, create pending orders, touch globals, stringify, re-enter run), globals, prepare (12 programs incl. modules, orders, native orders, failing and unparsable ones)/step/run/provide_module, fulfill_orders (value, object + immediate release + allocation pressure, error, NULL, unknown id, empty, duplicate), order promises resolve/reject, exports, gc_stats, forced collection, internal module registration, second context, context free (handles survive and are released afterwards, in both orders)",
                    "rule": "breadth-first over all call histories up to the stated depth from each initial state, replayed from scratch, deduplicated by model state; the oracle (model agreement, string validity, stale-handle hook, script-visible integrity, NULL sweep of %d calls) runs on every transition; exhaustive within depth unless a pass reports a cap" % 70}
    chk.assumptions = ["only calls within the header's contract are issued (handles are not used after release; survivors of a freed context are only released); ownership of a value passed to tsrun_internal_module_add_value moves to the module, as in examples/c-embedding/internal_modules.c",
                       "the quantifier's length <= 200 is not reachable exhaustively: the depth completed is reported per pass", "the model abstracts object contents to one level (primitive values and kinds)"]
    return chk.finish(exhaustive=not any(p["capped_at_runs_per_shard"] for p in passes))


def replay(path):
    rp = json.load(open(path))
    exe = asan_exe() if rp.get("build") == "asan" else core.build("chk")
    r = subprocess.run([exe, "c17", "replay", str(rp["init"]), str(rp["gc"]), rp["history"]], stdout=subprocess.PIPE, stderr=subprocess.PIPE, text=True)
    print(r.stdout[-2000:])
    if r.returncode != 0:
        print(r.stderr[-2000:])
        print("VIOLATION property=C17 replay=%s" % path)
        return 1
    d = json.loads(r.stdout.strip().split("\n")[-1])
    if d["problems"]:
        print("VIOLATION property=C17 replay=%s" % path)
        return 1
    return 0
