#!/bin/sh
# Build the harness (offline) against /repo's current working tree, hooks enabled.
set -e
cd "$(dirname "$0")/harness"
export RUSTFLAGS="--cfg tsrun_verif" CARGO_TARGET_DIR="$(dirname "$0")/../target" CARGO_NET_OFFLINE=true
CARGO_TARGET_DIR="$(cd .. && pwd)/target"
export CARGO_TARGET_DIR
cargo build --offline --profile chk
cargo build --offline --profile rel
