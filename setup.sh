#!/bin/sh
# Build the harness (offline) against /repo's current working tree, hooks enabled.
set -e
cd "$(dirname "$0")/harness"
export RUSTFLAGS="--cfg tsrun_verif" CARGO_TARGET_DIR="$(dirname "$0")/../target" CARGO_NET_OFFLINE=true
CARGO_TARGET_DIR="$(cd .. && pwd)/target"
export CARGO_TARGET_DIR
cargo build --offline --profile chk
cargo build --offline --profile rel
# AddressSanitizer build of the same harness (used by C13 thorough and C17): nightly toolchain, own target dir
RUSTFLAGS="--cfg tsrun_verif -Zsanitizer=address" CARGO_TARGET_DIR="$CARGO_TARGET_DIR/asan" cargo +nightly build --offline --profile chk --target x86_64-unknown-linux-gnu || echo "setup: ASan build failed (C17 will retry and report)"
